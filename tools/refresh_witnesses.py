#!/venv/bin/python
"""Developer tool: re-derive every witness tape in known_findings.json after the workload generator changed.
known entries are searched on the current tree, fixed entries on the pristine pre-fix source (/dev/shm/jv-orig/src,
recreated from commit 16938dc if missing), then verified to pass on the current tree."""
import json
import os
import subprocess
import sys

HERE = os.path.dirname(os.path.dirname(os.path.abspath(__file__)))
ORIG = "/dev/shm/jv-orig"
if not os.path.isdir(ORIG + "/src"):
    os.makedirs(ORIG, exist_ok=True)
    subprocess.run(f"git -C /repo archive 16938dc src | tar -x -C {ORIG}", shell=True, check=True)
kf = json.load(open(os.path.join(HERE, "known_findings.json")))
only = sys.argv[1:]
for e in kf["findings"]:
    if only and e["id"] not in only:
        continue
    cmd = ["/venv/bin/python", os.path.join(HERE, "tools", "add_finding.py"), e["property"], "0", e["id"], e["status"], e["text"],
           "--search", "6000", "--line", e.get("line", "")]
    if e["status"] == "fixed":
        cmd += ["--sig", json.dumps(e["signature"])]  # known entries are matched by the classifier id alone
    if e["status"] == "fixed":
        cmd += ["--src", ORIG + "/src", "--commit", e.get("commit") or ""]
    p = subprocess.run(cmd, capture_output=True, text=True)
    ok = "written" in p.stdout
    print(e["id"], e["property"], e["status"], "refreshed" if ok else "FAILED: " + (p.stdout + p.stderr)[-300:])
# verify
kf = json.load(open(os.path.join(HERE, "known_findings.json")))
for e in kf["findings"]:
    path = f"/dev/shm/witness-{e['id']}-{e['property']}.json"
    json.dump({"tape": e["witness_tape"]}, open(path, "w"))
    p = subprocess.run(["/venv/bin/python", os.path.join(HERE, "check.py"), e["property"], "--replay", path], capture_output=True, text=True)
    first = p.stdout.splitlines()[0] if p.stdout else ""
    print("current tree:", e["id"], e["property"], e["status"], "->", first[:120])
    os.remove(path)
