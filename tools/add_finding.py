#!/venv/bin/python
"""Developer tool (never run by a check): find a witness for a finding, minimise
it and add/replace an entry in known_findings.json.

  add_finding.py PROP UNIT_INDEX ID STATUS "text" [--sig-prefix a,b] [--commit HASH] [--src DIR]

STATUS known|fixed.  For 'fixed' entries the witness is normally taken from the
pre-fix tree (--src /path/to/old/src).
"""
import argparse
import json
import os
import sys

ap = argparse.ArgumentParser()
ap.add_argument("prop")
ap.add_argument("index", type=int)
ap.add_argument("id")
ap.add_argument("status", choices=["known", "fixed"])
ap.add_argument("text")
ap.add_argument("--commit", default=None)
ap.add_argument("--src", default=None)
ap.add_argument("--seed", type=int, default=0)
ap.add_argument("--tier", default="quick")
ap.add_argument("--also", default="", help="comma separated further property ids this finding is listed for")
ap.add_argument("--search", type=int, default=0, help="search unit indices index..index+N-1 for the first violation matching --sig")
ap.add_argument("--sig", default="", help="JSON list: required violation signature")
ap.add_argument("--line", default="", help="explicit 'fixed:' / 'known:' line")
ap.add_argument("--scan", type=int, nargs=2, default=None, help="(internal) scan START N units and report the first match")
a = ap.parse_args()
if a.src:
    os.environ["VERIF_REPO_SRC"] = a.src
os.environ.setdefault("PYTHONHASHSEED", "0")
HERE = os.path.dirname(os.path.dirname(os.path.abspath(__file__)))
sys.path.insert(0, HERE)
import sim  # noqa: E402

sim.use_repo()
import importlib  # noqa: E402

from sim.minimize import minimise  # noqa: E402
from sim.tape import Tape, run_seed  # noqa: E402

mod = importlib.import_module("props." + a.prop.lower())
found = None
want_sig = json.loads(a.sig) if a.sig else None
want_known = a.id if a.status == "known" else None


def match(o):
    if o.sig is None:
        return False
    if want_sig is not None and list(o.sig) != want_sig:
        return False
    return o.known == want_known


import signal  # noqa: E402


class UnitTimeout(Exception):
    pass


def _alarm(*_a):
    raise UnitTimeout()


signal.signal(signal.SIGALRM, _alarm)


def _scan_child(start: int, n: int) -> None:
    """--scan mode (a subprocess): print 'AT i' before each unit and 'HIT i' for the first match; a unit that hangs
    ends the process (its threads cannot be trusted any more) - the parent resumes after it."""
    for index in range(start, start + n):
        print("AT", index, flush=True)
        signal.alarm(20)
        try:
            if hasattr(mod, "unit"):
                for _tp, o in mod.unit(index, a.seed, a.tier):
                    if match(o):
                        print("HIT", index, flush=True)
                        os._exit(0)
            else:
                if match(mod.run(Tape(run_seed(a.seed, mod.ID, index)))):
                    print("HIT", index, flush=True)
                    os._exit(0)
        except UnitTimeout:
            os._exit(3)
        except Exception:
            os._exit(3)
        finally:
            signal.alarm(0)
    os._exit(0)


if a.scan:
    _scan_child(a.scan[0], a.scan[1])

first = a.index
if a.search > 64:
    # parallel scan (subprocesses, hard timeouts) for the first matching unit, then handle that unit here
    import concurrent.futures as cf
    import subprocess

    def scan_range(start, n):
        end = start + n
        while start < end:
            cmd = [sys.executable, os.path.abspath(__file__), a.prop, "0", a.id, a.status, a.text, "--seed", str(a.seed),
                   "--tier", a.tier, "--scan", str(start), str(end - start)]
            if a.sig:
                cmd += ["--sig", a.sig]
            try:
                p_ = subprocess.run(cmd, capture_output=True, text=True, timeout=40 + 4 * (end - start), env=os.environ)
                outp = p_.stdout
                rc = p_.returncode
            except subprocess.TimeoutExpired as e_:
                outp = (e_.stdout or b"").decode() if isinstance(e_.stdout, bytes) else (e_.stdout or "")
                rc = 3
            last = start
            for line in outp.splitlines():
                if line.startswith("HIT "):
                    return int(line.split()[1])
                if line.startswith("AT "):
                    last = int(line.split()[1])
            if rc == 0:
                return None
            start = last + 1  # skip the unit that hung / broke the process
        return None

    chunk = 25
    jobs = [(s_, min(chunk, a.index + a.search - s_)) for s_ in range(a.index, a.index + a.search, chunk)]
    hit = None
    with cf.ThreadPoolExecutor(14) as ex:
        futs = [ex.submit(scan_range, *j_) for j_ in jobs]
        for f_ in futs:
            r_ = f_.result()
            if r_ is not None:
                hit = r_
                for g_ in futs:
                    g_.cancel()
                break
    if hit is None:
        sys.exit("no matching violation found")
    first = hit
for index in range(first, first + (1 if a.search > 64 else max(a.search, 1))):
    # a pre-fix tree may hang on a unit (F4: a loop over a list that the loop itself extends): skip such units
    signal.alarm(20)
    try:
        if hasattr(mod, "unit"):
            for tp, o in mod.unit(index, a.seed, a.tier):
                if match(o):
                    found = (tp, o)
                    break
        else:
            tp = Tape(run_seed(a.seed, mod.ID, index))
            o = mod.run(tp)
            if match(o):
                found = (tp, o)
    except UnitTimeout:
        print("unit", index, "timed out, skipped")
        continue
    finally:
        signal.alarm(0)
    if found:
        print("unit", index)
        break
if not found:
    sys.exit("no matching violation found")
tp, o = found
print("found", o.sig, "known=", o.known)
def safe_run(tape):
    signal.alarm(20)
    try:
        return mod.run(tape)
    except UnitTimeout:
        from sim.core import Outcome

        return Outcome()
    finally:
        signal.alarm(0)


streams, runs = minimise(safe_run, tp.to_json()["streams"], tuple(o.sig), o.known, **getattr(mod, "MINIMISE", {}))
o2 = mod.run(Tape(streams=streams))
print("minimised in", runs, "runs ->", {k: len(v) for k, v in streams.items()}, o2.sig, o2.known)
print(json.dumps(o2.decoded, indent=1, default=repr)[:1200])
path = os.path.join(HERE, "known_findings.json")
kf = json.load(open(path))
props = [a.prop.upper()] + [x for x in a.also.split(",") if x]
entry = {
    "id": a.id, "property": a.prop.upper(), "properties": props, "status": a.status, "text": a.text,
    "signature": list(o2.sig), "witness_tape": {"seed": None, "streams": streams},
}
if a.status == "fixed":
    entry["commit"] = a.commit
    entry["line"] = a.line or f"fixed: property={a.prop.upper()} {a.commit} {a.text}"
else:
    entry["line"] = a.line or f"known: property={a.prop.upper()} {a.id} {a.text}"
kf["findings"] = [e for e in kf["findings"] if not (e["id"] == a.id and e["property"] == a.prop.upper())] + [entry]
json.dump(kf, open(path, "w"), indent=1)
print("written", a.id)
