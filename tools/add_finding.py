#!/venv/bin/python
"""Developer tool (never run by a check): find a witness for a finding, minimise
it and add/replace an entry in known_findings.json.

  add_finding.py PROP UNIT_INDEX ID STATUS "text" [--sig-prefix a,b] [--commit HASH] [--src DIR]

STATUS known|fixed.  For 'fixed' entries the witness is normally taken from the
pre-fix tree (--src /path/to/old/src).
"""
import argparse
import json
import os
import sys

ap = argparse.ArgumentParser()
ap.add_argument("prop")
ap.add_argument("index", type=int)
ap.add_argument("id")
ap.add_argument("status", choices=["known", "fixed"])
ap.add_argument("text")
ap.add_argument("--commit", default=None)
ap.add_argument("--src", default=None)
ap.add_argument("--seed", type=int, default=0)
ap.add_argument("--tier", default="quick")
ap.add_argument("--also", default="", help="comma separated further property ids this finding is listed for")
ap.add_argument("--search", type=int, default=0, help="search unit indices index..index+N-1 for the first violation matching --sig")
ap.add_argument("--sig", default="", help="JSON list: required violation signature")
ap.add_argument("--line", default="", help="explicit 'fixed:' / 'known:' line")
a = ap.parse_args()
if a.src:
    os.environ["VERIF_REPO_SRC"] = a.src
os.environ.setdefault("PYTHONHASHSEED", "0")
HERE = os.path.dirname(os.path.dirname(os.path.abspath(__file__)))
sys.path.insert(0, HERE)
import sim  # noqa: E402

sim.use_repo()
import importlib  # noqa: E402

from sim.minimize import minimise  # noqa: E402
from sim.tape import Tape, run_seed  # noqa: E402

mod = importlib.import_module("props." + a.prop.lower())
found = None
want_sig = json.loads(a.sig) if a.sig else None
want_known = a.id if a.status == "known" else None


def match(o):
    if o.sig is None:
        return False
    if want_sig is not None and list(o.sig) != want_sig:
        return False
    return o.known == want_known


for index in range(a.index, a.index + max(a.search, 1)):
    if hasattr(mod, "unit"):
        for tp, o in mod.unit(index, a.seed, a.tier):
            if match(o):
                found = (tp, o)
                break
    else:
        tp = Tape(run_seed(a.seed, mod.ID, index))
        o = mod.run(tp)
        if match(o):
            found = (tp, o)
    if found:
        print("unit", index)
        break
if not found:
    sys.exit("no matching violation found")
tp, o = found
print("found", o.sig, "known=", o.known)
streams, runs = minimise(mod.run, tp.to_json()["streams"], tuple(o.sig), o.known, **getattr(mod, "MINIMISE", {}))
o2 = mod.run(Tape(streams=streams))
print("minimised in", runs, "runs ->", {k: len(v) for k, v in streams.items()}, o2.sig, o2.known)
print(json.dumps(o2.decoded, indent=1, default=repr)[:1200])
path = os.path.join(HERE, "known_findings.json")
kf = json.load(open(path))
props = [a.prop.upper()] + [x for x in a.also.split(",") if x]
entry = {
    "id": a.id, "property": a.prop.upper(), "properties": props, "status": a.status, "text": a.text,
    "signature": list(o2.sig), "witness_tape": {"seed": None, "streams": streams},
}
if a.status == "fixed":
    entry["commit"] = a.commit
    entry["line"] = a.line or f"fixed: property={a.prop.upper()} {a.commit} {a.text}"
else:
    entry["line"] = a.line or f"known: property={a.prop.upper()} {a.id} {a.text}"
kf["findings"] = [e for e in kf["findings"] if not (e["id"] == a.id and e["property"] == a.prop.upper())] + [entry]
json.dump(kf, open(path, "w"), indent=1)
print("written", a.id)
