#!/venv/bin/python
"""Regenerate /verif/MANIFEST.json from the table below (kept valid at all times)."""
import json
import os
import re

HERE = os.path.dirname(os.path.dirname(os.path.abspath(__file__)))
PY = "/venv/bin/python"

CLAIMED = {
    "C26": {
        "level": "exploration",
        "technique": "deterministic simulation: seeded baton-passing thread scheduler (sys.monitoring INSTRUCTION pre-emption) + Wing-Gong linearizability check vs reference LRU model",
        "text": "Seeded search over sequential histories (full method set, copies and pickles carried forward) compared step by step with a reference LRU model, and over thread schedules: 2-3 simulated threads on one cache, pre-empted at bytecode-instruction boundaries inside every LRUCache method, each recorded history checked for linearizability, exceptions, deadlock and capacity. Sequential histories include stores of the identical object, unhashable keys (plain and equal to a key in use: TypeError, cache untouched) and a live iterator while the cache is read. Sampling, not enumeration: a clean batch is evidence, not proof.",
        "note": "Trusted: the reference LRU model and linearizability checker in sim/models.py; CPython GIL atomicity of single bytecode instructions and of C-level dict/deque calls; SimLock has the semantics of threading.Lock. Free-threaded builds are not modelled.",
        "design": "DESIGN.md §4 C26, §3.3",
    },
    "C36": {
        "level": "fault_enumeration",
        "technique": "deterministic simulation: virtual-time asyncio loop (seeded ready-queue choice), fault enumeration of cancel / early-close / data-exception positions, CPython asyncgen hooks as oracle",
        "text": "Per sampled async template set, every position of three fault kinds measured on its clean run is injected under a simulated event loop (thorough: all positions; quick: a seeded sample): consumer aclose() after k chunks, cancellation of the render task after its k-th loop step with other tasks interleaved from the seed, the k-th data event raising (Exception / BaseException), each through the async and the sync API (including a sync consumer that stops after k chunks), on Environment / NativeEnvironment / SandboxedEnvironment, optionally with a peer render task of the same template on the same environment. When a render's task finishes no async generator it started that belongs to compiled template code or to the engine itself (jinja2 modules other than filters.py) may be unfinished, none may reach the GC finalizer hook, and no never-awaited/unraisable/loop-exception report may appear. Workloads are sampled, positions within a workload are enumerated.",
        "note": "Trusted: CPython's asyncgen firstiter/finalizer hooks and ag_frame as the ground truth of 'closed'; SimLoop (BaseEventLoop subclass, real Tasks) schedules faithfully; template generators are recognised by co_filename '<template>', engine generators by living in a jinja2 module other than filters.py; generators are attributed to the task that first iterated them. Data and filter async generators (map, select) are outside the property's list and only counted. A loop closed without shutdown_asyncgens() and loops the engine never closes are inspected too.",
        "design": "DESIGN.md §4 C36, §3.4",
    },
    "C37": {
        "level": "exploration",
        "technique": "deterministic simulation: virtual-time asyncio loop, seeded interleavings of 2-4 render tasks on one environment + peer cancel/exception faults, differential oracle vs isolated render",
        "text": "Seeded search over interleavings: 2-4 real asyncio tasks render generated templates on one shared async environment under a simulated event loop whose every ready-queue choice and gate delay (0..3600 virtual seconds) comes from the seed; some runs cancel a peer at its k-th step or make a peer's k-th data event raise. A quarter of the runs use the micro programs of C29 (few await points, so the seeded ready queue covers their interleavings quickly); generate_async consumers may suspend between chunks. Every surviving task's output must equal the same render done alone on a fresh environment of the same configuration (with the task's own template-level globals). Sampling of schedules and programs, not enumeration.",
        "note": "Trusted: the isolated render of the same code as reference (differential, so a bug that shows identically alone and concurrently is invisible); SimLoop schedules real Tasks faithfully. Known findings KF-C29-1 (state in cached import modules) and KF-C37-1 (the eval context of a cached import module is shared by all tasks; an autoescape block inside a module macro switches it while it runs) are tolerated only for generator-tagged programs and only if a fresh environment per task removes the mismatch.",
        "design": "DESIGN.md §4 C37, §3.4, §9.9",
    },
    "C38": {
        "level": "fault_enumeration",
        "technique": "deterministic simulation with fault injection at the data seam: Probe data objects raise at the k-th data event, every k per sampled history; exception identity + differential recovery renders",
        "text": "Per sampled template set and render history (3-6 renders in one environment; sync/async, plain/sandboxed, all rendering entry points) the clean run counts the data events of every render; then every event position of every render (thorough) or a seeded sample (quick) is made to raise a private Exception / BaseException / ValueError- RuntimeError- OSError- ArithmeticError-subclass / an exception class that forbids attribute assignment. Environments: plain, sandboxed, native; optionally the debug and i18n (newstyle, translating catalog) extensions. One faulted history in 24 is a soak: the faulted render 120 times, then every entry point clean. The faulted render must raise that very object; every clean render before, between and after faults must equal its isolated reference. Histories are sampled; fault positions within a history are enumerated.",
        "note": "Trusted: the isolated render of the same code as reference for recovery renders; the Probe classes define what a data event is. One narrow exemption: a fault raised inside the documented `sequence` capability test (detected on the Python stack) may be swallowed.",
        "design": "DESIGN.md §4 C38",
    },
    "C29": {
        "level": "exploration",
        "technique": "deterministic simulation: render histories with deep input snapshots + seeded baton-passing thread schedules (sys.monitoring LINE/INSTRUCTION pre-emption) on one shared environment, differential oracle vs isolated render",
        "text": "Seeded search over (a) render histories on one environment (3-10 renders through every entry point, small template caches so eviction/reload happen, sync and async) with a deep structural snapshot of data, environment globals and template globals after every render, and (b) thread schedules: 2-4 simulated threads rendering on the same environment and the same data objects, pre-empted at source-line boundaries of jinja2/template code (placement biased to cache, loader, module and runtime code) and instruction boundaries in LRUCache, with hot, warm and cold template caches; in a third of the schedule runs one thread's k-th data call raises (the others must be unaffected, nobody may be left waiting: threading.Lock/RLock/Event created by the code under test are simulator primitives, so a wait nobody can satisfy is a detected deadlock). Environment / NativeEnvironment / SandboxedEnvironment. A quarter of the runs are micro programs (two one-expression templates using one filter / test / global two ways, or two templates running macros of one module imported without context) for which every step of the serial run inside filter / runtime-helper code is tried as a single pre-emption. Every render must equal its isolated reference and leave inputs unchanged; a run that does not return within its time limit is the violation no-termination. Sampling, not enumeration; the property text's 8-16 free-running threads are replaced by 2-4 threads with chosen pre-emptions, which reach the same pairwise races reproducibly.",
        "note": "Trusted: the isolated render of the same code as reference (differential); GIL atomicity below source-line / bytecode granularity; SimLock = threading.Lock semantics; purity of the generated data callables. References come from pristine interpreters for one run in 64 and for every run after the content of a process-global container of jinja2 was seen to differ from the worker's first reading (a trigger, never compared with an expected value). Known findings KF-C29-1 (state in cached import modules) and KF-C37-1 (shared eval context of a cached import module, thread interleaving only) are tolerated only for generator-tagged programs and only if a fresh Environment per render removes the mismatch.",
        "design": "DESIGN.md §4 C29, §3.3, §9.9, §9.10",
    },
    "C25": {
        "level": "exploration",
        "technique": "deterministic simulation: real Environment over simulated loader storage, file system and clock (forward / held / backwards), seeded operation histories with injected I/O errors, checked against an executable reference cache model; plus reader threads and an external writer interleaved by the seeded baton scheduler (source lines, LRUCache instructions, syscalls) with a strict check after quiescence",
        "text": "Seeded histories (get, select, modify, delete, add, loader swap, clock tick forward/held/backwards, gc) drive a real Environment whose loaders read a simulated store / file system stamped by a simulated clock; each operation's observable result (which source version rendered, TemplateNotFound, cache length) is compared with a reference model of the cache for cache sizes 0/1/2/3/-1/400, both reload settings and eight loader kinds (DictLoader, FunctionLoader with/without up-to-date callback, FileSystemLoader with one/two directories, ChoiceLoader of dict and of file-system loaders, PrefixLoader; rebinding loader.mapping; an in-memory bytecode cache in a third of the runs); a separate configuration arms an EIO on one operation's open/getmtime (or a storage outage of a FunctionLoader: load and up-to-date callback raise) and checks strictly again afterwards. One run in four is concurrent: 1-2 reader threads and an external writer (modify/delete/add) are interleaved by seeded pre-emptions inside get_template/_load_template/loader/LRUCache code and at simulated syscalls; in-flight operations may see any version current inside their window, and after quiescence every lookup must again serve the current source, be repeatable and respect the capacity. Sampling of histories and schedules, not enumeration.",
        "note": "Trusted: the reference model in props/c25.py (about 60 lines) as the statement of documented cache behaviour; it is compared only through observables, never private fields. Held-clock rewrites accept either version until the next change. Multi-directory search paths and ChoiceLoader shadowing are outside the property's quantifier and not covered.",
        "design": "DESIGN.md §4 C25, §3.5",
    },
    "C27": {
        "level": "fault_enumeration",
        "technique": "deterministic simulation with fault injection: in-memory file system / memcached, 2-3 simulated processes interleaved at syscall events, enumeration of crash points, power-loss truncations, I/O errors and entry damage per sampled history; differential oracle vs cache-less compile",
        "text": "Per sampled history of loads, source changes, clears, restarts and syncs by 2-3 simulated processes sharing one cache directory (or memcached), the clean run numbers every syscall event; then every crash point (before/after each event), power loss after each event (per-file prefix truncation, renames persisted or undone), every error kind at every event, every truncation offset of every stored entry, foreign-magic / other-version / garbage / empty / stale / foreign-code entries and memcached client faults are injected (thorough: all positions; quick: a seeded sample with every kind represented), plus two-fault combinations. Rounds include two threads of ONE process sharing one Environment and cache object with a source edit landing mid-load (source-line pre-emption in bccache.py / loaders.py). Configurations: identical, one compile-relevant option differing (KF-C27-1 classifier), or only run-time options differing (undefined type, same-named filter/test/global, presence of a global) with no tolerance. Loaders: DictLoader, FunctionLoader returning fresh strings, ChoiceLoader with a shadowed copy. Foreign-interpreter headers are computed by the code under test re-executed under another sys.version_info. Every load must render exactly what a cache-less environment of the same configuration renders and must not raise, except the injected error object itself in the load it was injected into. Histories are sampled; fault positions within a history are enumerated.",
        "note": "Trusted: SimFS's POSIX model (atomic rename, unlink semantics, no-fsync durability), process death = no further file-system call; the cache-less compile of the same code as reference. Known finding KF-C27-1 (configuration not part of key/checksum) is matched only by a structured classifier: the load read an entry written under another configuration and the observed behaviour equals executing that configuration's code in the reader environment; same-config runs get no tolerance.",
        "design": "DESIGN.md §4 C27, §3.5",
    },
    "C13": {
        "level": "exploration",
        "technique": "deterministic simulation: seeded histories over differently configured environments / overlays / Template(...) with shrunken lexer cache, executed by 1-3 baton-passed threads (sys.monitoring LINE pre-emption in environment.py, utils.py, lexer construction), differential oracle vs isolated render",
        "text": "Decides ONLY the second sentence of C13 (creating and using such environments never changes how previously configured environments render). Seeded histories of environment creation, overlays (same/changed options, with/without cache_size), Template(...) construction (more configurations than the spontaneous-environment cache holds), from_string/get_template renders through a shared loader and clear_caches, with the lexer cache shrunk to 1-3 entries so eviction and re-creation happen, run by 1-3 simulated threads with seeded pre-emptions inside the shared-cache code. Every render must equal the isolated render of the same (configuration, source, data) - for Template(...) that is Environment(**options).from_string without a loader, so the constructor path is compared with the environment path. A quarter of the runs also pre-empt inside tokenising (the cached Lexer is shared). One run in eight is a micro run: two threads with two different configurations and one tiny source each, every step of the serial run inside lexer-cache / lexer / tokenising code tried as a single pre-emption, followed by a sequential re-render of both configurations. Sampling of histories; per micro workload the single pre-emptions are enumerated.",
        "note": "NOT decided: the first sentence (equivalent delimiter sets / line statements / overlays render the same text) - a pure metamorphic property of the lexer with no schedule or history in it, not applicable to this technique. Trusted: isolated render of the same code as reference; GIL atomicity below source-line granularity; the lexer-cache capacity knob pokes jinja2.lexer._lexer_cache.capacity (skipped if absent).",
        "design": "DESIGN.md §4 C13, §3.3",
    },
    "C30": {
        "level": "exploration",
        "technique": "deterministic simulation of the nondeterminism sources the property names: fresh interpreters with seeded PYTHONHASHSEED values and seeded per-process compilation histories (orders, cache clears, unrelated and failing compilations), plus overlapping compilations on baton-passed threads; digest comparison of generated source",
        "text": "Per seeded corpus of generated template sets (biased to the code-generator sites that turn a set of names into emitted text), 3 (quick) or 6 (thorough) fresh interpreters are started with PYTHONHASHSEED values drawn from the seed; each compiles the corpus in a drawn order, clears caches, compiles unrelated templates, and compiles the corpus again in another order. Interpreters other than the base one also run disturbances in the same environment before a compilation (expression / template compilations that fail half-way, meta introspection, lexing). All digests of Environment.compile(raw=True) for one (template, configuration) must agree; on a mismatch both sources are diffed into the replay file. Per corpus, 12 (quick) / 60 (thorough) further runs let 2-3 simulated threads compile templates at the same time (own or shared environment, source-line pre-emption through the whole pipeline); every source must equal the one obtained alone. Sampling of programs, hash seeds and schedules.",
        "note": "Trusted: nothing but CPython; hash-seed dependence is only visible if one of the sampled seeds orders the relevant set differently (3-6 seeds per corpus, hundreds of corpora per run) and if the generator reaches the site (per-site coverage counters are in the evidence).",
        "design": "DESIGN.md §4 C30",
    },
}

PENDING_REASON = "check not built yet in this session (planned as a simulation check, DESIGN.md §4); not claimed until it exists"
ALL_CLAIMABLE = ["C13", "C25", "C26", "C27", "C29", "C30", "C36", "C37", "C38"]


def main() -> None:
    design = open(os.path.join(HERE, "DESIGN.md")).read()
    na = []
    for m in re.finditer(r"### (C\d+) (.*?) — \*\*not applicable\*\*\n(.*?)\n\n", design, re.S):
        na.append({"property_id": m.group(1), "reason": "not applicable to deterministic simulation: " + " ".join(m.group(3).split())})
    for pid in ALL_CLAIMABLE:
        if pid not in CLAIMED:
            na.append({"property_id": pid, "reason": PENDING_REASON})
    na.sort(key=lambda e: e["property_id"])
    checks = []
    for pid in sorted(CLAIMED):
        c = CLAIMED[pid]
        checks.append({
            "property_id": pid,
            "quick_cmd": f"{PY} /verif/check.py {pid} --tier quick",
            "thorough_cmd": f"{PY} /verif/check.py {pid} --tier thorough",
            "evidence_file": f"/verif/evidence/{pid}.json",
            "replay_cmd_template": f"{PY} /verif/check.py {pid} --replay {{path}}",
            "engine": "jinja-dst",
            "level_claimed": {"category": c["level"], "text": c["text"], "design_ref": c["design"]},
            "level_note": c["note"],
            "technique": c["technique"],
        })
    man = {
        "version": 1,
        "setup_cmd": f"{PY} -m compileall -q /verif/sim /verif/props /verif/check.py",
        "hooks": {
            "guard": "JINJA_VERIF_SIM",
            "enable": "no source hooks: every seam is a module global, constructor argument or public extension point patched by /verif at run time; jinja2 is imported from /repo/src (working tree)",
            "baseline_off_cmd": "cd /repo && /venv/bin/python -m pytest -ra -q -p no:cacheprovider --timeout=900 --continue-on-collection-errors",
            "source_commits": [],
            "add_only": True,
        },
        "engines": [{
            "name": "jinja-dst",
            "path": "/verif/check.py",
            "serves_properties": sorted(CLAIMED),
            "kind_free_text": "deterministic simulation with fault injection: choice tape (one integer decides everything), baton-passing thread scheduler on sys.monitoring, virtual-time asyncio loop, in-memory file system / clock / memcached with fault plan, tape shrinking and fresh-process replay",
        }],
        "checks": checks,
        "not_applicable": na,
        "notes": "Exit codes: 0 held, 1 violation (VIOLATION line, minimised replay reproduced in a fresh process), 2 harness problem (never a verdict). Known and fixed findings: /verif/known_findings.json. fix: commits in /repo: see DESIGN.md §9.6 (ten commits, F1-F13).",
    }
    with open(os.path.join(HERE, "MANIFEST.json"), "w") as f:
        json.dump(man, f, indent=1)
    print("claimed:", sorted(CLAIMED), "not_applicable:", len(na))


if __name__ == "__main__":
    main()
