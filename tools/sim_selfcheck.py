#!/venv/bin/python
"""Self-checks of the simulator's own parts (not a registered check): the
linearizability search, the reference LRU model, the thread scheduler's
determinism, SimLoop's virtual clock, SimFS crash semantics, the minimiser."""
import os
import sys

os.environ.setdefault("PYTHONHASHSEED", "0")
sys.path.insert(0, os.path.dirname(os.path.dirname(os.path.abspath(__file__))))
import sim  # noqa: E402

sim.use_repo()
from sim import aioloop as A  # noqa: E402
from sim import simfs as F  # noqa: E402
from sim import threads as T  # noqa: E402
from sim.minimize import minimise  # noqa: E402
from sim.models import LRUModel, linearizable  # noqa: E402
from sim.tape import Tape  # noqa: E402

fails = []


def check(name, cond):
    print(("ok   " if cond else "FAIL ") + name)
    if not cond:
        fails.append(name)


# --- linearizability ---------------------------------------------------------------
m = LRUModel(1, [("a", 1)])
# T1: set b (inv 1, ret 6) ; T2: a in c -> False (2,3) ; b in c -> False (4,5): not linearizable
h = [{"op": ("set", "b", 2), "inv": 1, "ret": 6, "res": ("ok", None)},
     {"op": ("in", "a"), "inv": 2, "ret": 3, "res": ("ok", False)},
     {"op": ("in", "b"), "inv": 4, "ret": 5, "res": ("ok", False)}]
check("non-linearizable history rejected", not linearizable(m, h, (("b", 2),))[0])
h[2]["res"] = ("ok", True)
check("linearizable history accepted", linearizable(m, h, (("b", 2),))[0])
h2 = [{"op": ("set", "b", 2), "inv": 1, "ret": 2, "res": ("ok", None)},
      {"op": ("getitem", "a"), "inv": 3, "ret": 4, "res": ("ok", 1)}]
check("real-time order respected (stale read after completed evicting set rejected)", not linearizable(m, h2, None)[0])
check("final-state observation used", not linearizable(m, h[:1], (("a", 1),))[0])

# --- LRU model --------------------------------------------------------------------------
m = LRUModel(2)
for op in [("set", "a", 1), ("set", "b", 2), ("get", "a"), ("set", "c", 3)]:
    m.apply(op)
check("model evicts least recently used", m.apply(("items",))[1] == (("c", 3), ("a", 1)))

# --- scheduler determinism -----------------------------------------------------------------
import jinja2.utils as U  # noqa: E402

T.install(sim.REPO_SRC, instr_classes=[U.LRUCache])
U.Lock = T.SimLock


def sched_run(streams):
    tp = Tape(streams=streams)
    c = U.LRUCache(2)
    T.scan_replace_locks(c)
    s = T.Sched(tp)
    log = []
    for t in range(3):
        def fn(t=t):
            for i in range(3):
                c[(t, i)] = i
                log.append((t, i, len(c)))
        s.spawn(fn)
    s.plan([(0, 40, 1), (1, 25, 0), (2, 10, 1)])
    s.run()
    return s.trace, log


a1 = sched_run({"s": [1, 0, 1, 1]})
a2 = sched_run({"s": [1, 0, 1, 1]})
b = sched_run({"s": [2, 1, 0, 0]})
check("same tape -> same thread schedule", a1 == a2)
check("different tape -> different schedule", a1[0] != b[0])
check("pre-emptions fired", any(e[0] == "pre" for e in a1[0]))

# --- SimLoop virtual time ---------------------------------------------------------------------
import asyncio  # noqa: E402

loop = A.SimLoop(Tape(streams={}))


async def sleeper():
    await asyncio.sleep(3600)
    await asyncio.sleep(86400)
    return loop.time()


r, e = A.run_loop(loop, sleeper())
A.close_loop(loop)
check("virtual clock jumps over timers", e is None and r >= 90000)

# --- SimFS crash semantics ------------------------------------------------------------------------
fs = F.use(F.SimFS())
fs.write_buffer = 16
fs.faults[3] = ("crash-before",)
try:
    f = fs.named_temporary_file(mode="wb", dir="/simfs/c", prefix="e", suffix=".tmp", delete=False)
    for _ in range(4):
        f.write(b"x" * 10)
    f.close()
    crashed = False
except F.SimCrash:
    crashed = True
check("crash fires at the planned syscall", crashed)
try:
    fs.remove("/simfs/c/e000001.tmp")
    refused = False
except F.SimCrash:
    refused = True
check("dead process cannot clean up (further calls refused)", refused)
data = fs.get("/simfs/c/e000001.tmp")
check("partial temp file survives the crash", data is not None and 0 < len(data) < 40)
fs.inline_pid = 1
fs.replace("/simfs/c/e000001.tmp", "/simfs/c/e.cache")
check("rename is atomic and visible to another process", fs.get("/simfs/c/e.cache") == data and fs.get("/simfs/c/e000001.tmp") is None)

# --- minimiser -----------------------------------------------------------------------------------------


class O:
    def __init__(self, sig):
        self.sig, self.known = sig, None


def toy(tp):
    vals = [tp.draw(100, "w") for _ in range(12)]
    return O(("big",) if sum(1 for v in vals if v >= 50) >= 2 else None)


streams, runs = minimise(toy, {"w": [60, 3, 70, 9, 80, 55, 1, 2, 99, 4, 5, 6]}, ("big",), None)
check("minimiser shrinks to two minimal values", sorted(v for v in streams["w"] if v) == [50, 50])

print("FAILED:" if fails else "all simulator self-checks passed", fails or "")
sys.exit(1 if fails else 0)
