#!/bin/bash
# usage: mkmutant.sh NAME PROP "description" <<< python-edit-script (edits files under $M/src)
# Creates /verif/mutants/NAME.patch as a diff of a scratch copy of /repo/src against /repo/src.
set -e
NAME=$1; PROP=$2; DESC=$3
M=/dev/shm/jv-mk-$$
rm -rf $M; mkdir -p $M; cp -r /repo/src $M/src; find $M -name __pycache__ -prune -exec rm -rf {} +
M=$M python3 -
cd $M
{ echo "# property: $PROP"; echo "# description: $DESC"; (cd /repo && diff -u src/jinja2 $M/src/jinja2 | sed "s#$M/##" ) || true; } > /verif/mutants/$NAME.patch
rm -rf $M
grep -c '^[-+][^-+]' /verif/mutants/$NAME.patch
