#!/venv/bin/python
"""Confirm a sub-agent's seeded change in a fresh scratch worktree and keep it under /verif/seeded/<id>/.

  ingest_seed.py SRC_DIR ID PROP [--needs "text"]

SRC_DIR contains patch.diff, demo.py, notes.md.  Confirms: patch applies to /repo HEAD, unedited suite passes
with it, demo exits 1 with it and 0 without it.
"""
import argparse
import json
import os
import shutil
import subprocess
import sys

ap = argparse.ArgumentParser()
ap.add_argument("src")
ap.add_argument("id")
ap.add_argument("prop")
ap.add_argument("--needs", default="")
a = ap.parse_args()
PY = "/venv/bin/python"
wt = f"/tmp/wt-verify-{os.getpid()}"
subprocess.run(["git", "-C", "/repo", "worktree", "add", "-q", "--detach", wt, "HEAD"], check=True)
ran = []
try:
    def demo():
        p = subprocess.run([PY, os.path.join(a.src, "demo.py")], env=dict(os.environ, PYTHONPATH=wt + "/src"),
                           capture_output=True, text=True, timeout=300, cwd=wt)
        return p.returncode, (p.stdout + p.stderr)[-600:]

    rc0, out0 = demo()
    ran.append(f"demo.py on clean tree -> exit {rc0}")
    p = subprocess.run(["git", "-C", wt, "apply", os.path.join(a.src, "patch.diff")], capture_output=True, text=True)
    if p.returncode != 0:
        sys.exit("patch does not apply: " + p.stderr)
    t = subprocess.run([PY, "-m", "pytest", "-q", "-p", "no:cacheprovider", "-x", "tests"], cwd=wt,
                       env=dict(os.environ, PYTHONPATH=wt + "/src"), capture_output=True, text=True, timeout=900)
    tail = t.stdout.strip().splitlines()[-1] if t.stdout.strip() else ""
    ran.append(f"pytest with patch -> exit {t.returncode}: {tail}")
    rc1, out1 = demo()
    ran.append(f"demo.py with patch -> exit {rc1}")
    ok = rc0 == 0 and rc1 == 1 and t.returncode == 0
    print("\n".join(ran))
    if not ok:
        print("NOT KEPT", out0, out1)
        sys.exit(1)
    dst = f"/verif/seeded/{a.id}"
    os.makedirs(dst, exist_ok=True)
    for f in ("patch.diff", "demo.py", "notes.md"):
        if os.path.exists(os.path.join(a.src, f)):
            shutil.copy(os.path.join(a.src, f), os.path.join(dst, f))
    notes = open(os.path.join(a.src, "notes.md")).read() if os.path.exists(os.path.join(a.src, "notes.md")) else ""
    json.dump({"property": a.prop, "check_with": [a.prop], "needs_to_manifest": a.needs or notes[:600],
               "confirmed": ran, "demo_output_with_patch": out1[-400:], "origin": "independent sub-agent, given only the property text"},
              open(os.path.join(dst, "meta.json"), "w"), indent=1)
    print("kept", dst)
finally:
    subprocess.run(["git", "-C", "/repo", "worktree", "remove", "--force", wt])
