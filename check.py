#!/venv/bin/python
"""Single entry point of the verification machinery.

  check.py Cxx [--tier quick|thorough] [--budget SECONDS] [--workers N]
  check.py Cxx --replay FILE

exit 0  the property held on everything explored
exit 1  a violation was found, minimised and reproduced in a fresh process;
        prints  VIOLATION property=<id> replay=<path>
exit 2  harness problem (never reported as a violation)
"""
from __future__ import annotations

import argparse
import concurrent.futures as cf
import faulthandler
import importlib
import json
import multiprocessing
import os
import subprocess
import sys
import time
import traceback

HERE = os.path.dirname(os.path.abspath(__file__))
if os.environ.get("PYTHONHASHSEED") is None:
    os.environ["PYTHONHASHSEED"] = "0"
    os.execve(sys.executable, [sys.executable, os.path.abspath(__file__), *sys.argv[1:]], os.environ)

sys.path.insert(0, HERE)
import sim  # noqa: E402

sim.use_repo()
from sim.core import digest  # noqa: E402
from sim.tape import Tape, run_seed  # noqa: E402

PROPS = ["C13", "C25", "C26", "C27", "C29", "C30", "C36", "C37", "C38"]
KNOWN_FILE = os.path.join(HERE, "known_findings.json")
REPLAY_DIR = os.path.join(HERE, "replays")
EVID_DIR = os.path.join(HERE, "evidence")
CASE_CAP = 4_000_000  # distinct-case digests kept in memory; beyond it distinct_nontrivial is a lower bound


def load_prop(pid: str):
    return importlib.import_module("props." + pid.lower())


# ---------------------------------------------------------------------------
# work units
# ---------------------------------------------------------------------------
def unit_runs(mod, index: int, seed: int, tier: str):
    """Yield (tape, outcome) for every simulated run of work unit `index`."""
    if hasattr(mod, "unit"):
        yield from mod.unit(index, seed, tier)
    else:
        tape = Tape(run_seed(seed, mod.ID, index))
        yield tape, mod.run(tape)


_pinned = False


def _pin() -> None:
    """Pin this worker to one CPU: a simulated run hands a baton between real
    threads thousands of times; with waker and wakee on one core the hand-over
    is immediate, otherwise it waits for a scheduler slot on a busy machine
    (measured: 55 vs 300-450 runs/s per worker with 16 workers)."""
    global _pinned
    if _pinned:
        return
    _pinned = True
    try:
        cpus = sorted(os.sched_getaffinity(0))
        ident = multiprocessing.current_process()._identity
        k = (ident[0] - 1) if ident else 0
        os.sched_setaffinity(0, {cpus[k % len(cpus)]})
    except Exception:
        pass


def _new_summary() -> dict:
    return {
        "evaluations": 0, "units": 0, "cases": set(), "counters": {}, "violations": [],
        "known_seen": {}, "samples": [], "harness": [], "sim_time": 0.0, "unit_digests": {},
    }


_HISTORY: list[int] = []  # unit indices this worker process has executed so far (its process history)


def work_batch(pid: str, start: int, count: int, seed: int, tier: str, want_digests: bool = False) -> dict:
    faulthandler.enable()
    _pin()
    mod = load_prop(pid)
    s = _new_summary()
    t_busy0 = time.monotonic()
    for index in range(start, start + count):
        faulthandler.dump_traceback_later(600, exit=True)
        try:
            traces = []
            for tape, o in unit_runs(mod, index, seed, tier):
                s["evaluations"] += o.evals
                s["sim_time"] += o.sim_time
                for c_ in o.cases:
                    s["cases"].add(int(c_, 16))
                for k, v in o.counters.items():
                    s["counters"][k] = s["counters"].get(k, 0) + v
                if o.case is not None:
                    s["cases"].add(int(o.case, 16))
                if want_digests:
                    traces.append([o.trace, list(o.sig) if o.sig else None, o.case])
                if o.sig is not None:
                    if o.known is not None:
                        s["known_seen"][o.known] = s["known_seen"].get(o.known, 0) + 1
                    elif len(s["violations"]) < 8:
                        s["violations"].append({
                            "index": index, "tape": tape.to_json(), "sig": list(o.sig),
                            "detail": o.detail, "decoded": o.decoded, "prelude": list(_HISTORY),
                        })
                    else:
                        s["counters"]["violations_not_kept"] = s["counters"].get("violations_not_kept", 0) + 1
                elif len(s["samples"]) < 2 and (o.case is not None or o.cases) and o.decoded:
                    s["samples"].append({"index": index, "tape": tape.to_json(), **o.decoded})
            s["units"] += 1
            _HISTORY.append(index)
            if want_digests:
                s["unit_digests"][index] = digest(traces)
        except Exception:
            s["harness"].append({"index": index, "error": traceback.format_exc()})
            if len(s["harness"]) > 3:
                break
        finally:
            faulthandler.cancel_dump_traceback_later()
    s["cases"] = list(s["cases"])
    s["busy_s"] = time.monotonic() - t_busy0
    return s


def merge(total: dict, part: dict) -> None:
    total["evaluations"] += part["evaluations"]
    total["units"] += part["units"]
    if len(total["cases"]) < CASE_CAP:
        total["cases"].update(part["cases"])
    else:
        total["cases_not_counted"] = total.get("cases_not_counted", 0) + len(part["cases"])
    total["sim_time"] += part["sim_time"]
    for k, v in part["counters"].items():
        total["counters"][k] = total["counters"].get(k, 0) + v
    for k, v in part["known_seen"].items():
        total["known_seen"][k] = total["known_seen"].get(k, 0) + v
    total["violations"].extend(part["violations"])
    total["harness"].extend(part["harness"])
    if len(total["samples"]) < 3:
        total["samples"].extend(part["samples"][: 3 - len(total["samples"])])
    total["unit_digests"].update(part["unit_digests"])


# ---------------------------------------------------------------------------
# replay / minimise helpers (run inside workers or fresh processes)
# ---------------------------------------------------------------------------
def run_tape_json(pid: str, tape_json: dict):
    mod = load_prop(pid)
    if hasattr(mod, "run_replay"):
        return mod.run_replay(tape_json)
    return mod.run(Tape.from_json(tape_json))


def minimise_job(pid: str, viol: dict) -> dict:
    """Shrink the tape in this worker.  If the violation does not reproduce here (state leaked
    between runs of this process - itself a symptom some violations have) or the shrunk tape
    stops failing, fall back to the original tape; the fresh-process replay decides."""
    from sim.minimize import minimise

    faulthandler.enable()
    _pin()
    mod = load_prop(pid)
    runner = getattr(mod, "run_streams", None) or (lambda tp: mod.run(tp))
    orig = {"ok": True, "streams": viol["tape"]["streams"], "runs": 0, "sig": list(viol["sig"]), "detail": viol["detail"],
            "decoded": viol["decoded"], "known": None, "minimised": False}
    try:
        o0 = runner(Tape(streams=viol["tape"]["streams"]))
        if o0.sig is None or list(o0.sig) != list(viol["sig"]):
            return orig
        streams, runs = minimise(runner, viol["tape"]["streams"], tuple(viol["sig"]), o0.known,
                                 **getattr(mod, "MINIMISE", {}))
        o = runner(Tape(streams=streams))
        if o.sig is None or list(o.sig) != list(viol["sig"]):
            return orig
        return {"ok": True, "streams": streams, "runs": runs, "sig": list(o.sig), "detail": o.detail,
                "decoded": o.decoded, "known": o.known, "minimised": True}
    except Exception:
        return orig


def replay_file(pid: str, path: str) -> int:
    with open(path) as f:
        rep = json.load(f)
    prelude = rep.get("prelude_units") or []
    if prelude:
        # the violation depends on what this process did before the failing run: re-execute that history first
        mod = load_prop(pid)
        pseed = int(rep.get("verif_seed", 0))
        ptier = rep.get("tier", "quick")
        for index in prelude:
            for _tp, _o in unit_runs(mod, int(index), pseed, ptier):
                pass
        print(f"PRELUDE property={pid} units={len(prelude)} re-executed")
    o = run_tape_json(pid, rep["tape"])
    if o.sig is None:
        print(f"REPLAY property={pid} sig=null")
        return 0
    print(f"REPLAY property={pid} sig={json.dumps(list(o.sig))} known={o.known}")
    print(json.dumps({"detail": o.detail, "decoded": o.decoded}, indent=1, default=repr)[:6000])
    if o.known is not None:
        print(f"KNOWN-FINDING: property={pid} {o.known}")
        return 0
    print(f"VIOLATION property={pid} replay={path}")
    return 1


def _prelude_search(pid: str, seed: int, tier: str, cands: list, replay_dir: str):
    """Try to reproduce a violation that needs process history.  Returns (sig, path) or None."""
    deadline = time.monotonic() + 240

    def attempt(v, prelude):
        path = os.path.join(replay_dir, f"{pid}-{seed}-{v['index']}-h{len(prelude)}-{digest([v['tape']['streams'], prelude])[:8]}.json")
        rep = {"property": pid, "verif_seed": seed, "tier": tier, "unit_index": v["index"], "signature": v["sig"],
               "prelude_units": prelude, "tape": v["tape"], "original_tape": v["tape"], "minimisation_runs": 0,
               "detail": v["detail"], "decoded": v["decoded"],
               "note": "the failing run depends on what the process did before it; prelude_units are re-executed first"}
        with open(path, "w") as f:
            json.dump(rep, f, indent=1, default=repr)
        try:
            sig, _p = fresh_replay_sig(pid, path)
        except Exception:
            sig = None
        if sig == v["sig"]:
            return path
        os.remove(path)
        return None

    for v in cands[:4]:
        hist = [i for i in v.get("prelude", []) if i != v["index"]][-400:]
        if not hist or time.monotonic() > deadline:
            continue
        full = attempt(v, hist)
        if full is None:
            continue
        best, best_pre = full, hist
        # shortest suffix that still reproduces (assuming the leaked state persists once set)
        lo, hi = 1, len(hist)
        while lo < hi and time.monotonic() < deadline:
            mid = (lo + hi) // 2
            pth = attempt(v, hist[-mid:])
            if pth is not None:
                if best != pth:
                    os.remove(best)
                best, best_pre, hi = pth, hist[-mid:], mid
            else:
                lo = mid + 1
        # the first unit of that suffix alone
        if len(best_pre) > 1 and time.monotonic() < deadline:
            pth = attempt(v, best_pre[:1])
            if pth is not None:
                os.remove(best)
                best = pth
        return (v["sig"], best)
    return None


def fresh_replay_sig(pid: str, path: str, hashseed: str = "0"):
    env = dict(os.environ, PYTHONHASHSEED=hashseed)
    p = subprocess.run([sys.executable, os.path.join(HERE, "check.py"), pid, "--replay", path],
                       capture_output=True, text=True, env=env, timeout=300)
    for line in p.stdout.splitlines():
        if line.startswith(f"REPLAY property={pid} sig="):
            rest = line.split("sig=", 1)[1]
            sig = rest.split(" known=")[0]
            return json.loads(sig), p
    return "no-replay-line", p


# ---------------------------------------------------------------------------
def fresh_digests(pid: str, indices: list[int], seed: int, tier: str, hashseed: str) -> dict:
    env = dict(os.environ, PYTHONHASHSEED=hashseed)
    p = subprocess.run(
        [sys.executable, os.path.join(HERE, "check.py"), pid, "--digests", json.dumps(indices),
         "--tier", tier],
        capture_output=True, text=True, env=dict(env, VERIF_SEED=str(seed)), timeout=900)
    for line in p.stdout.splitlines():
        if line.startswith("DIGESTS "):
            return {int(k): v for k, v in json.loads(line[8:]).items()}
    raise RuntimeError("fresh interpreter produced no digests:\n" + p.stdout[-2000:] + p.stderr[-2000:])


def load_known(pid: str) -> list[dict]:
    if not os.path.exists(KNOWN_FILE):
        return []
    with open(KNOWN_FILE) as f:
        data = json.load(f)
    return [e for e in data.get("findings", []) if e.get("property") == pid]


def main() -> int:
    ap = argparse.ArgumentParser()
    ap.add_argument("prop")
    ap.add_argument("--tier", default=os.environ.get("VERIF_TIER", "quick"), choices=["quick", "thorough"])
    ap.add_argument("--replay")
    ap.add_argument("--digests")
    ap.add_argument("--budget", type=float, default=None)
    ap.add_argument("--workers", type=int, default=int(os.environ.get("VERIF_WORKERS", "16")))
    ap.add_argument("--no-evidence", action="store_true")
    a = ap.parse_args()
    pid = a.prop.upper()
    if pid not in PROPS:
        print(f"unknown or unclaimed property {pid}", file=sys.stderr)
        return 2
    seed = int(os.environ.get("VERIF_SEED", "0") or 0)
    mod = load_prop(pid)

    if a.replay:
        return replay_file(pid, a.replay)
    if a.digests:
        idx = json.loads(a.digests)
        out = {}
        for i in idx:
            s = work_batch(pid, i, 1, seed, a.tier, want_digests=True)
            if s["harness"]:
                print(s["harness"][0]["error"])
                return 2
            out[i] = s["unit_digests"][i]
        print("DIGESTS " + json.dumps(out))
        return 0

    t_start = time.monotonic()
    debug = bool(os.environ.get("VERIF_DEBUG"))

    def phase(name):
        if debug:
            print(f"[{time.monotonic() - t_start:7.2f}s] {name}", file=sys.stderr, flush=True)

    tier = a.tier
    budget = a.budget
    if budget is None:
        budget = float(os.environ.get("VERIF_BUDGET_S") or getattr(mod, "BUDGET", {}).get(tier, 25 if tier == "quick" else 600))
    workers = max(1, a.workers)
    ctx = multiprocessing.get_context("fork")
    total = _new_summary()
    harness_msgs: list[str] = []
    exit_code = 0
    out_lines: list[str] = []

    pool = cf.ProcessPoolExecutor(max_workers=workers, mp_context=ctx)
    try:
        # ---- known findings: replay witnesses ------------------------------
        known = load_known(pid)
        known_ids = {e["id"] for e in known if e.get("status") == "known"}
        known_report = {}
        regress = []
        for e in known:
            wit = e.get("witness_tape")
            if not wit:
                continue
            fut = pool.submit(_witness_job, pid, wit)
            r = fut.result(timeout=300)
            if e.get("status") == "known":
                reproduced = r["sig"] is not None and r["known"] == e["id"]
                known_report[e["id"]] = {"witness_reproduces": reproduced, "seen_in_exploration": 0}
                if r["sig"] is not None and r["known"] != e["id"]:
                    total["violations"].append({"index": -1, "tape": wit, "sig": r["sig"], "detail": r["detail"], "decoded": r["decoded"]})
            else:  # fixed: regression run, suppresses nothing
                regress.append({"id": e["id"], "passes": r["sig"] is None})
                if r["sig"] is not None and r["known"] is None:
                    total["violations"].append({"index": -1, "tape": wit, "sig": r["sig"], "detail": r["detail"], "decoded": r["decoded"]})

        phase('determinism self-test')
        # ---- determinism self-test ----------------------------------------
        n_det = getattr(mod, "DET_UNITS", {}).get(tier, 32 if tier == "quick" else 200)
        det_idx = list(range(1_000_000, 1_000_000 + n_det))
        det = {"units": n_det, "in_process_repeat_mismatches": 0, "fresh_interpreter_mismatches": 0,
               "fresh_interpreter_hashseed": None}
        chunks = [det_idx[i::workers] for i in range(workers)]
        futs = []
        for rep in range(2):
            for ch in chunks:
                for i in ch:
                    futs.append(pool.submit(work_batch, pid, i, 1, seed, tier, True))
        dig_runs: list[dict] = [{}, {}]
        k = 0
        for rep in range(2):
            for ch in chunks:
                for i in ch:
                    r = futs[k].result(timeout=600)
                    k += 1
                    if r["harness"]:
                        harness_msgs.append(r["harness"][0]["error"])
                    dig_runs[rep].update(r["unit_digests"])
        hs = str(1 + (seed * 7919 + 12345) % 4_000_000)
        det["fresh_interpreter_hashseed"] = hs
        n_fresh = min(n_det, getattr(mod, "DET_FRESH", {}).get(tier, 16 if tier == "quick" else 64))
        fresh_futs = []
        tp = cf.ThreadPoolExecutor(max_workers=4)
        fidx = det_idx[:n_fresh]
        for part in [fidx[i::4] for i in range(4)]:
            if part:
                fresh_futs.append(tp.submit(fresh_digests, pid, part, seed, tier, hs))

        phase('exploration')
        # ---- exploration ---------------------------------------------------
        explore_deadline = t_start + budget
        next_index = 0
        batch = getattr(mod, "BATCH", {}).get(tier, 8)
        pending: dict = {}
        ema_unit = None
        t_explore0 = time.monotonic()
        max_units = getattr(mod, "MAX_UNITS", {}).get(tier)
        while True:
            now = time.monotonic()
            # keep exploring after the first violation until a few candidates exist: one that depends on state leaked
            # from an earlier run of the same worker does not replay, a later one may
            while len(pending) < workers + 4 and now < explore_deadline and len(total["violations"]) < 6 \
                    and len(harness_msgs) == 0 and (max_units is None or next_index < max_units):
                n = batch if max_units is None else min(batch, max_units - next_index)
                f = pool.submit(work_batch, pid, next_index, n, seed, tier)
                pending[f] = (next_index, n, time.monotonic())
                next_index += n
            if not pending:
                break
            done, _ = cf.wait(list(pending), timeout=1.0, return_when=cf.FIRST_COMPLETED)
            for f in done:
                st, n, t0 = pending.pop(f)
                try:
                    r = f.result()
                except Exception as e:  # worker died
                    harness_msgs.append(f"worker failed on units {st}..{st + n - 1}: {e!r}")
                    continue
                merge(total, r)
                for h in r["harness"]:
                    harness_msgs.append(f"unit {h['index']}: {h['error']}")
                dt = time.monotonic() - t0
                if debug:
                    print(f"   batch {st}+{n} took {dt:.2f}s (queued+run) evals={r['evaluations']}", file=sys.stderr)
                per_unit = max(r.get("busy_s", dt), 1e-4) / max(n, 1)
                ema_unit = per_unit if ema_unit is None else 0.7 * ema_unit + 0.3 * per_unit
                batch = max(1, min(int(1.0 / ema_unit), 2048))
            for f, (st, n, t0) in list(pending.items()):
                if time.monotonic() - t0 > 600:
                    harness_msgs.append(f"batch {st}..{st + n - 1} exceeded 600 s")
                    pending.pop(f)
        t_explore = time.monotonic() - t_explore0

        phase('collect determinism results')
        # determinism results
        for ff in fresh_futs:
            try:
                fr = ff.result(timeout=900)
            except Exception as e:
                harness_msgs.append(f"determinism fresh-interpreter run failed: {e!r}")
                continue
            for i, d in fr.items():
                if dig_runs[0].get(i) != d:
                    det["fresh_interpreter_mismatches"] += 1
        for i in det_idx:
            if dig_runs[0].get(i) != dig_runs[1].get(i) or dig_runs[0].get(i) is None:
                det["in_process_repeat_mismatches"] += 1
        det["fresh_interpreter_units"] = n_fresh
        soft_msgs: list[str] = []
        if det["in_process_repeat_mismatches"] or det["fresh_interpreter_mismatches"]:
            # not fatal by itself: if a violation found below replays in a fresh process it is reported (the replay is
            # the proof); without one the run ends with "no verdict".  State leaking between runs of one worker
            # process (itself a symptom some changes to jinja produce) shows up here first.
            soft_msgs.append(f"determinism self-test mismatch: {det}")

        phase('violations')
        # ---- violations: minimise + verify in fresh process -------------------
        reported = []
        if total["violations"] and not harness_msgs:
            os.makedirs(REPLAY_DIR, exist_ok=True)
            by_sig: dict = {}
            for v in total["violations"]:
                by_sig.setdefault(json.dumps(v["sig"]), []).append(v)
            not_replayed = []
            for key, cands in list(by_sig.items())[:3]:
                done = False
                for ci, v in enumerate(cands[:16]):
                    # the first candidate is minimised; if neither its shrunk nor its original tape replays in a fresh
                    # process (behaviour that depends on state outside the tape, e.g. heap addresses), further
                    # candidates of the same signature are tried unminimised
                    attempts = []
                    if ci == 0:
                        try:
                            m = pool.submit(minimise_job, pid, v).result(timeout=600)
                        except Exception as e:
                            harness_msgs.append(f"minimisation failed: {e!r}")
                            break
                        if m.get("minimised"):
                            attempts.append((m["streams"], m["sig"], m["detail"], m["decoded"], m["runs"]))
                    attempts.append((v["tape"]["streams"], v["sig"], v["detail"], v["decoded"], 0))
                    for streams, sig_, detail, decoded, runs in attempts:
                        path = os.path.join(REPLAY_DIR, f"{pid}-{seed}-{v['index']}-{digest(streams)[:8]}.json")
                        rep = {
                            "property": pid, "verif_seed": seed, "unit_index": v["index"],
                            "signature": sig_, "tape": {"seed": None, "streams": streams},
                            "original_tape": v["tape"], "minimisation_runs": runs,
                            "detail": detail, "decoded": decoded,
                        }
                        with open(path, "w") as f:
                            json.dump(rep, f, indent=1, default=repr)
                        sig, p = fresh_replay_sig(pid, path)
                        if sig == sig_:
                            reported.append((sig_, path))
                            out_lines.append(f"VIOLATION property={pid} replay={path}")
                            done = True
                            break
                        os.remove(path)
                    if done:
                        break
                if not done:
                    # state leaked from an earlier run of the same worker process?  replay with that worker's history
                    # (the units it executed before), then shrink the history to the shortest suffix / single unit
                    found = _prelude_search(pid, seed, tier, cands, REPLAY_DIR)
                    if found is not None:
                        reported.append(found)
                        out_lines.append(f"VIOLATION property={pid} replay={found[1]}")
                        done = True
                if not done:
                    not_replayed.append(key)
            if reported:
                exit_code = 1
                soft_msgs = []
            elif not_replayed:
                harness_msgs.append(f"violation(s) {not_replayed} seen {sum(len(by_sig[k]) for k in not_replayed)} time(s) during "
                                    "exploration but none of the candidate tapes reproduced in a fresh process")
    finally:
        procs = list(getattr(pool, "_processes", {}).values())
        pool.shutdown(wait=False, cancel_futures=True)
        for pr in procs:
            try:
                pr.terminate()
            except Exception:
                pass

    for kid, n in total["known_seen"].items():
        if kid in known_report:
            known_report[kid]["seen_in_exploration"] = n
        elif kid not in known_ids:
            harness_msgs.append(f"classifier produced unknown finding id {kid}")
    for e in known:
        if e.get("status") == "known":
            kr = known_report.get(e["id"], {})
            if kr.get("witness_reproduces") or kr.get("seen_in_exploration"):
                out_lines.insert(0, f"KNOWN-FINDING: property={pid} {e['id']} {e['text']}")

    harness_msgs.extend(soft_msgs)
    if harness_msgs:
        for m in harness_msgs[:5]:
            print("HARNESS-ERROR " + m, file=sys.stderr)
        print(f"HARNESS-ERROR property={pid}: {len(harness_msgs)} problem(s); no verdict")
        exit_code = 2

    phase('evidence')
    wall = time.monotonic() - t_start
    if not a.no_evidence:
        n_distinct = len(total["cases"])
        ev = {
            "property_id": pid,
            "tier": tier,
            "seed": seed,
            "level": mod.LEVEL,
            "wall_s": round(wall, 2),
            "violations": len(reported) if exit_code == 1 else 0,
            "assumptions": list(mod.ASSUMPTIONS),
            "coverage": {
                "evaluations": total["evaluations"],
                "distinct_nontrivial": n_distinct,
                "rule": mod.RULE,
                "samples": total["samples"][:3] or [{"note": "no non-trivial sample recorded"}],
                "work_units": total["units"],
                "runs_per_hour": int(total["evaluations"] / max(t_explore, 1e-6) * 3600),
                "seeds_per_hour": int(total["units"] / max(t_explore, 1e-6) * 3600),
                "explore_wall_s": round(t_explore, 2),
                "workers": workers,
                "simulated_seconds_covered": round(total["sim_time"], 3),
                "counters": dict(sorted(total["counters"].items())),
                "determinism_selftest": det,
                "known_findings": known_report,
                "fixed_regressions": regress,
                "real_vs_stub": mod.REAL_STUB,
                "exhaustive": False,
                "distinct_nontrivial_is_lower_bound": bool(total.get("cases_not_counted")),
                "case_digests_not_counted_after_cap": total.get("cases_not_counted", 0),
                "harness_errors": len(harness_msgs),
            },
        }
        os.makedirs(EVID_DIR, exist_ok=True)
        tmp = os.path.join(EVID_DIR, f".{pid}.json.tmp")
        with open(tmp, "w") as f:
            json.dump(ev, f, indent=1, default=repr)
        os.replace(tmp, os.path.join(EVID_DIR, f"{pid}.json"))

    for line in out_lines:
        print(line)
    print(f"{pid} tier={tier} seed={seed} runs={total['evaluations']} units={total['units']} "
          f"distinct_nontrivial={len(total['cases'])} wall={wall:.1f}s exit={exit_code}")
    sys.stdout.flush()
    return exit_code


def _witness_job(pid: str, tape_json: dict) -> dict:
    o = run_tape_json(pid, tape_json)
    return {"sig": list(o.sig) if o.sig else None, "known": o.known, "detail": o.detail, "decoded": o.decoded}


if __name__ == "__main__":
    code = main()
    sys.stdout.flush()
    sys.stderr.flush()
    os._exit(code)
