#!/venv/bin/python
"""Sensitivity self-test (not a registered check).

For every mutant patch in /verif/mutants (and every seeded change kept under
/verif/seeded/<id>/patch.diff) a scratch copy of /repo/src is made in
/dev/shm, the patch applied, and the quick check of each property the patch
names is run against the copy (VERIF_REPO_SRC).  Records which were killed.

  selftest.py [--only SUBSTR] [--props C25,C26] [--tests] [--budget S] [--jobs N]

--tests additionally runs jinja's own test suite against the mutated copy (to
confirm the mutant is one the existing tests let through).
"""
from __future__ import annotations

import argparse
import concurrent.futures as cf
import glob
import json
import os
import re
import shutil
import subprocess
import sys
import time

HERE = os.path.dirname(os.path.abspath(__file__))
PY = sys.executable


def read_patch(path: str):
    props, desc = [], ""
    for line in open(path):
        if line.startswith("# property:"):
            props = [p.strip() for p in line.split(":", 1)[1].split(",") if p.strip()]
        elif line.startswith("# description:"):
            desc = line.split(":", 1)[1].strip()
        elif not line.startswith("#"):
            break
    return props, desc


def run_one(name: str, path: str, props: list[str], budget: float, tests: bool, seed: int) -> dict:
    scratch = f"/dev/shm/jv-mut-{os.getpid()}-{name}"
    shutil.rmtree(scratch, ignore_errors=True)
    os.makedirs(scratch)
    res = {"mutant": name, "props": {}, "applies": True}
    try:
        shutil.copytree("/repo/src", scratch + "/src", ignore=shutil.ignore_patterns("__pycache__"))
        p = subprocess.run(["patch", "-p0", "-s", "-d", scratch, "-i", path], capture_output=True, text=True)
        if p.returncode != 0:
            p = subprocess.run(["patch", "-p1", "-s", "-d", scratch, "-i", path], capture_output=True, text=True)
        if p.returncode != 0:
            res["applies"] = False
            res["error"] = (p.stdout + p.stderr)[-400:]
            return res
        c = subprocess.run([PY, "-m", "compileall", "-q", scratch + "/src/jinja2"], capture_output=True, text=True)
        res["compiles"] = c.returncode == 0
        if tests:
            shutil.copytree("/repo/tests", scratch + "/tests", ignore=shutil.ignore_patterns("__pycache__"))
            shutil.copy("/repo/pyproject.toml", scratch + "/pyproject.toml")
            t = subprocess.run([PY, "-m", "pytest", "-q", "-x", "-p", "no:cacheprovider", scratch + "/tests"],
                               capture_output=True, text=True, cwd=scratch,
                               env=dict(os.environ, PYTHONPATH=scratch + "/src"), timeout=900)
            res["suite_passes"] = t.returncode == 0
            res["suite_tail"] = t.stdout.strip().splitlines()[-1:] if t.stdout else []
        for pid in props:
            t0 = time.time()
            env = dict(os.environ, VERIF_REPO_SRC=scratch + "/src", VERIF_SEED=str(seed), PYTHONHASHSEED="0")
            r = subprocess.run([PY, os.path.join(HERE, "check.py"), pid, "--tier", "quick", "--no-evidence",
                                "--workers", str(WORKERS)] + (["--budget", str(budget)] if budget else []),
                               capture_output=True, text=True, env=env, timeout=1800)
            viol = [l for l in r.stdout.splitlines() if l.startswith("VIOLATION")]
            sigs = []
            for v in viol:
                m = re.search(r"replay=(\S+)", v)
                if m and os.path.exists(m.group(1)):
                    try:
                        sigs.append(json.load(open(m.group(1)))["signature"])
                    except Exception:
                        pass
            res["props"][pid] = {"exit": r.returncode, "killed": r.returncode == 1 and bool(viol), "signatures": sigs,
                                 "wall_s": round(time.time() - t0, 1),
                                 "tail": r.stdout.strip().splitlines()[-1:] + r.stderr.strip().splitlines()[-2:]}
    finally:
        shutil.rmtree(scratch, ignore_errors=True)
    return res


WORKERS = 16


def main() -> int:
    global WORKERS
    ap = argparse.ArgumentParser()
    ap.add_argument("--only", default="")
    ap.add_argument("--props", default="")
    ap.add_argument("--tests", action="store_true")
    ap.add_argument("--budget", type=float, default=0, help="0 = the tier's own budget")
    ap.add_argument("--jobs", type=int, default=1)
    ap.add_argument("--seed", type=int, default=0)
    a = ap.parse_args()
    WORKERS = max(1, 16 // a.jobs)
    items = []
    for path in sorted(glob.glob(os.path.join(HERE, "mutants", "*.patch"))):
        items.append((os.path.basename(path)[:-6], path))
    for path in sorted(glob.glob(os.path.join(HERE, "seeded", "*", "patch.diff"))):
        items.append(("seeded-" + os.path.basename(os.path.dirname(path)), path))
    want = set(p for p in a.props.split(",") if p)
    jobs = []
    for name, path in items:
        if a.only and a.only not in name:
            continue
        if name.startswith("seeded-"):
            meta = json.load(open(os.path.join(os.path.dirname(path), "meta.json")))
            if meta.get("obsolete"):
                continue  # superseded by a repair of /repo (see meta.json)
            props = meta.get("check_with", [meta["property"]])
        else:
            props, _ = read_patch(path)
        if want:
            props = [p for p in props if p in want]
        if props:
            jobs.append((name, path, props))
    results = []
    with cf.ThreadPoolExecutor(max_workers=a.jobs) as ex:
        futs = [ex.submit(run_one, n, p, pr, a.budget, a.tests, a.seed) for n, p, pr in jobs]
        for f in futs:
            r = f.result()
            results.append(r)
            for pid, pr in r["props"].items():
                print(f"{r['mutant']:45s} {pid} {'KILLED ' if pr['killed'] else 'survived'} exit={pr['exit']} {pr['wall_s']}s "
                      f"{pr['signatures'][:1]}" + ("" if "suite_passes" not in r else f" suite={'pass' if r['suite_passes'] else 'FAIL'}"),
                      flush=True)
            if not r["applies"]:
                print(f"{r['mutant']:45s} PATCH DOES NOT APPLY {r.get('error')}")
    out = os.path.join(HERE, "selftest_results.json")
    prev = {}
    if os.path.exists(out):
        try:
            prev = {r["mutant"]: r for r in json.load(open(out))["results"]}
        except Exception:
            prev = {}
    for r in results:
        if r["mutant"] in prev:
            merged = prev[r["mutant"]]
            merged["props"].update(r["props"])
            for k in ("suite_passes", "suite_tail", "applies", "compiles"):
                if k in r:
                    merged[k] = r[k]
        else:
            prev[r["mutant"]] = r
    json.dump({"results": sorted(prev.values(), key=lambda r: r["mutant"])}, open(out, "w"), indent=1)
    return 0


if __name__ == "__main__":
    sys.exit(main())
