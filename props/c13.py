"""C13 (second sentence only) - creating and using differently configured
environments never changes how previously configured environments render.

The sentence is about process-global mutable state: the lexer cache (an LRU
keyed by twelve options), the lru_cache of spontaneous environments behind
``Template(...)``, and ``overlay`` copying ``__dict__`` and re-creating the
template cache - under arbitrary histories and, because these caches are shared
by all caller threads, under arbitrary schedules.

A run is a history of 4-20 operations over 3-14 configurations (make_env,
overlay with same/changed options with and without cache_size, Template(...)
construction, from_string + render, get_template + render through a loader
shared by an environment and its overlays, clear_caches), executed by 1-3
simulated threads with source-line pre-emption; the lexer cache capacity is a
knob (1, 2, 3, 50).

Oracle: each (configuration, source, data) is rendered once IN ISOLATION
(caches cleared, fresh environment); every render in the history must return
exactly that.  The first sentence of C13 (equivalent syntaxes render
identically) is a pure metamorphic property and is NOT decided here.
"""
from __future__ import annotations

import gc

from sim import threads as T
from sim.core import Outcome, digest, exc_key, scrub
from sim.envs import clear_process_caches
from sim.tape import Tape
from sim.workload import SYNTAXES, Gen, Syntax, make_data_seed

ID = "C13"
LEVEL = "exploration"
RULE = (
    "seeded histories of 4-20 operations over 3-14 lexer configurations (default, custom, multi-character, shared-prefix and "
    "angle-bracket delimiters, line statement/comment prefixes, all trim/lstrip/newline/keep-trailing-newline values, autoescape): "
    "make_env, overlay (same or changed options, with/without cache_size), Template(...) (spontaneous environments, more than "
    "the 10 the lru_cache holds), from_string+render, get_template+render through a loader shared with overlays, clear_caches; "
    "lexer cache capacity 1/2/3/50; 1-3 simulated threads run disjoint slices with 0-3 drawn source-line pre-emptions biased to "
    "get_lexer / LRUCache / Lexer.__init__ / overlay. Every render is compared with the isolated render of the same "
    "(configuration, source, data). Non-trivial = a configuration is used again after a different configuration was used (or "
    "concurrently with it); distinct = digest(history, configurations, switch trace)."
    " One configuration in four loads the i18n extension with newstyle callables installed and the `_` shorthand replaced by the application's own function (source ends in a trans block and a _() call); overlays inherit them."
    ' One source in six ends with an include that needs a loader (every loader-less entry point must fail the same way).'
)
ASSUMPTIONS = [
    "decides only the cache-isolation sentence of C13; the translation-equivalence sentence is a pure input property (not applicable to simulation) and is not claimed",
    "the isolated render of the same code is the oracle (differential)",
    "the lexer cache capacity is lowered through jinja2.lexer._lexer_cache.capacity when that object exists (a knob, so that eviction and re-creation happen); skipped otherwise",
]
REAL_STUB = {
    "real": ["jinja2 lexer / get_lexer cache / Environment / overlay / get_spontaneous_environment / Template constructor / compiler / runtime"],
    "stub": ["thread scheduler (baton passing on sys.monitoring LINE/INSTRUCTION events)", "threading.Lock -> SimLock"],
}
BUDGET = {"quick": 40, "thorough": 600}
_setup_done = False
OVERLAY_DELTAS = [
    {}, {"trim_blocks": None}, {"lstrip_blocks": None}, {"keep_trailing_newline": None},
    {"newline_sequence": "\r\n"}, {"autoescape": None}, {"trim_blocks": None, "lstrip_blocks": None},
    {"extensions": ["jinja2.ext.loopcontrols"]}, {"extensions": ["jinja2.ext.loopcontrols"], "trim_blocks": None},
]


def setup() -> None:
    global _setup_done
    if _setup_done:
        return
    import sim

    src = sim.use_repo()
    import jinja2.debug  # noqa: F401
    import jinja2.ext  # noqa: F401
    import jinja2.utils as U

    keep_lexer = {"get_lexer", "Lexer.__init__", "compile_rules", "Lexer._normalize_newlines"}

    def line_filter(code) -> bool:
        # pre-emption where the process-global state lives: environment.py, utils.py and the
        # lexer construction / lookup; not inside tokenising, parsing, code generation or rendering
        base = code.co_filename.rsplit("/", 1)[-1]
        if base in ("environment.py", "utils.py"):
            return True
        if base == "lexer.py":
            return code.co_qualname in keep_lexer
        return False

    T.set_line_filter(line_filter)
    T.install(src, line_events=True, instr_classes=[U.LRUCache, __import__("functools").cached_property])
    # tokenising runs on a Lexer object shared by every environment with equal options (a lazy generator the
    # parser pulls from): pre-empted inside it only in "deep" runs (a quarter of the runs)
    import jinja2.lexer as LX

    # (every function of the lexer module, so helpers a change adds are pre-emption regions too; the few that the line
    # filter above already covers are left to it)
    T.install_deep([f for f in T.module_functions(LX) if f.__code__.co_qualname not in keep_lexer])
    U.Lock = T.SimLock
    T.neutralise_real_locks()
    T.install_threading_factories()
    _setup_done = True


I18N_EXT = "jinja2.ext.i18n"


def _tr(s_):
    return s_.replace("text", "TEXT").replace("thing", "Ding")


def _underscore(s_):
    return "<" + _tr(s_) + ">"


def _install(env, cfg: dict) -> None:
    """Environments created from a configuration that loads the i18n extension get newstyle callables (what an
    application does once after creating its environment); overlays inherit them."""
    if I18N_EXT in (cfg.get("extensions") or ()):
        env.install_gettext_callables(_tr, lambda s_, p_, n_: _tr(s_ if n_ == 1 else p_), newstyle=True)
        env.globals["_"] = _underscore  # the application's own shorthand replaces the extension's alias


def _set_lexer_capacity(k: int) -> None:
    import jinja2.lexer as L

    c = getattr(L, "_lexer_cache", None)
    if c is not None and hasattr(c, "capacity"):
        c.capacity = k


def _cfg_of(sx: Syntax, autoescape: bool) -> dict:
    d = sx.env_kwargs()
    d["autoescape"] = autoescape
    return d


def _key(cfg: dict) -> tuple:
    return tuple(sorted((k, str(v)) for k, v in cfg.items()))


def _render(fn):
    try:
        return ("ok", scrub(fn()))
    except T.SimAbort:
        raise
    except Exception as e:
        e.with_traceback(None)  # C-level: works for exception classes that forbid attribute assignment
        return ("raised", exc_key(e))


def run(tape: Tape) -> Outcome:
    setup()
    import jinja2

    out = Outcome()
    nconf = 3 + tape.weighted([4, 3, 2, 1, 1, 1, 1, 1, 1, 1, 1, 2])
    lex_cap = (50, 1, 2, 3)[tape.draw(4)]
    confs = []
    for _ in range(nconf):
        sx = SYNTAXES[tape.draw(len(SYNTAXES))]
        confs.append(_cfg_of(sx, bool(tape.draw(2))))
        if tape.draw(4, "m") == 3:
            # an extension that keeps per-environment state (i18n: newstyle flag, installed callables)
            confs[-1]["extensions"] = [I18N_EXT]
    # one source per configuration, written in its syntax; whitespace-sensitive tail
    sources = []
    for ci, cfg in enumerate(confs):
        sx = next(s for s in SYNTAXES if s.env_kwargs() == {k: v for k, v in cfg.items() if k not in ("autoescape", "extensions")})
        g = Gen(tape, syntax=sx, size=1 + tape.draw(2), max_depth=2)
        body = g.body(__import__("sim.workload", fromlist=["Scope"]).Scope(), 1, 1 + tape.draw(2))
        tail = f"\n  {sx.bs} if n1 is defined {sx.be}  \n <{sx.vs} s1 {sx.ve}>\n  {sx.bs} endif {sx.be}\n{sx.cs} c {sx.ce}\nend\n"
        if tape.draw(8) == 7:
            # a tag only the loopcontrols extension knows: a syntax error everywhere except in overlays that add it
            tail += f"{sx.bs} for q in [1, 2, 3] {sx.be}{sx.bs} if q == 2 {sx.be}{sx.bs} break {sx.be}{sx.bs} endif {sx.be}{sx.vs} q {sx.ve}{sx.bs} endfor {sx.be}"
        if "extensions" in cfg:
            tail += (f"{sx.bs} trans v=s1 {sx.be}some text {sx.vs} v {sx.ve} & more{sx.bs} endtrans {sx.be}"
                     f"{sx.vs} _('a thing') {sx.ve}")
        if tape.draw(6) == 5:
            # a template that needs a loader: every entry point without one must fail the same way
            tail += f"{sx.bs} include 'nope' ignore missing {sx.be}"
        sources.append(body + tail)
    dseeds = [tape.draw(1 << 30, "d") for _ in range(1 + tape.draw(2))]
    nops = 4 + tape.draw(17)
    ops = []
    for _ in range(nops):
        k = tape.weighted([2, 3, 3, 5, 4, 1])
        ci = tape.draw(nconf)
        if k == 0:
            ops.append(("make_env", ci))
        elif k == 1:
            ops.append(("overlay", ci, tape.draw(len(OVERLAY_DELTAS)), (None, 0, 1, 50)[tape.draw(4)]))
        elif k == 2:
            ops.append(("Template", ci, tape.draw(len(dseeds))))
        elif k == 3:
            ops.append(("from_string", tape.draw(64), tape.draw(len(dseeds))))
        elif k == 4:
            ops.append(("get_template", tape.draw(64), tape.draw(len(dseeds))))
        else:
            ops.append(("clear_caches",))
    nt = 1 + tape.weighted([3, 3, 2])
    owner = [tape.draw(nt) for _ in ops]
    deep = tape.draw(4) == 3

    datas = [make_data_seed(s) for s in dseeds]
    refs: dict = {}

    def reference(cfg: dict, src: str, di: int, name=None, has_loader=False):
        key = (_key(cfg), src, di, name, has_loader)
        if key not in refs:
            clear_process_caches()
            if name is None:
                # Template(...) has no loader; from_string runs on environments that have the shared one
                env = jinja2.Environment(loader=jinja2.DictLoader({f"t{ci}": s_ for ci, s_ in enumerate(sources)}) if has_loader else None, **cfg)
                if has_loader:
                    _install(env, cfg)  # (the Template constructor's environment never gets callables installed)
                refs[key] = _render(lambda: env.from_string(src).render(datas[di]))
            else:
                env = jinja2.Environment(loader=jinja2.DictLoader({name: src}), **cfg)
                _install(env, cfg)
                refs[key] = _render(lambda: env.get_template(name).render(datas[di]))
        return refs[key]

    def execute(sched_tape, plan, serial, record_regions=False):
        clear_process_caches()
        _set_lexer_capacity(lex_cap)
        loader = jinja2.DictLoader({f"t{ci}": s for ci, s in enumerate(sources)})
        # environment table: (env, cfg, source index whose syntax it can read)
        envs: list = []
        results: list = [None] * len(ops)
        expect: list = [None] * len(ops)
        sched = T.Sched(sched_tape, step_cap=5_000_000, line_level=True, record_regions=record_regions, wall_cap=90.0)
        sched.deep = deep
        T.set_deep(deep)

        def get_env(ci):
            for e, cfg, sci in envs:
                if sci == ci and cfg == confs[ci]:
                    return e, cfg, sci
            e = jinja2.Environment(loader=loader, **confs[ci])
            _install(e, confs[ci])
            envs.append((e, confs[ci], ci))
            return envs[-1]

        def do(i, op):
            if op[0] == "make_env":
                e = jinja2.Environment(loader=loader, **confs[op[1]])
                _install(e, confs[op[1]])
                envs.append((e, confs[op[1]], op[1]))
            elif op[0] == "overlay":
                e, cfg, sci = get_env(op[1])
                delta = dict(OVERLAY_DELTAS[op[2]])
                for k_ in list(delta):
                    if delta[k_] is None:
                        delta[k_] = not cfg[k_]
                kw = dict(delta)
                if op[3] is not None:
                    kw["cache_size"] = op[3]
                o = e.overlay(**kw)
                ncfg = dict(cfg)
                ncfg.update(delta)
                if "extensions" in delta and "extensions" in cfg:
                    ncfg["extensions"] = list(cfg["extensions"]) + [x for x in delta["extensions"] if x not in cfg["extensions"]]
                envs.append((o, ncfg, sci))
            elif op[0] == "Template":
                cfg = confs[op[1]]
                src = sources[op[1]]
                expect[i] = (cfg, src, op[2])
                results[i] = _render(lambda: jinja2.Template(src, **cfg).render(datas[op[2]]))
            elif op[0] in ("from_string", "get_template"):
                if not envs:
                    get_env(0)
                e, cfg, sci = envs[op[1] % len(envs)]
                src = sources[sci]
                expect[i] = (cfg, src, op[2], None, True) if op[0] == "from_string" else (cfg, src, op[2], f"t{sci}")
                if op[0] == "from_string":
                    results[i] = _render(lambda: e.from_string(src).render(datas[op[2]]))
                else:
                    results[i] = _render(lambda: e.get_template(f"t{sci}").render(datas[op[2]]))
            else:
                jinja2.clear_caches()

        def body(tid):
            def fn():
                for i, op in enumerate(ops):
                    if owner[i] == tid:
                        try:
                            do(i, op)
                        except T.SimAbort:
                            raise
                        except Exception as e:  # environment creation / overlay / clear_caches raised
                            e.with_traceback(None)  # C-level: works for exception classes that forbid attribute assignment
                            results[i] = ("op-raised", exc_key(e))
            return fn

        for tid in range(nt):
            sched.spawn(body(tid), f"T{tid}")
        sched.plan(plan)
        if serial:
            sched.run_serial()
        else:
            sched.run()
        return sched, results, expect

    gc_was = gc.isenabled()
    gc.disable()
    try:
        s0, r0, e0 = execute(Tape(streams={}), [], True, record_regions=True)
        plan = []
        if nt > 1:
            horizons = [st.local_step for st in s0.threads]
            for _ in range(tape.draw(4, "s")):
                tid = tape.draw(nt, "s")
                regions = s0.threads[tid].regions or []
                h = max(horizons[tid], 1)
                want_regions = ("compile",) if (deep and tape.draw(2, "s")) else ("lru", "shared", "lock")
                idx = [i for i, r in enumerate(regions) if r in want_regions] if tape.draw(10, "s") < 7 else []
                step = 1 + (idx[tape.draw(len(idx), "s")] if idx else tape.draw(h, "s"))
                plan.append((tid, step, tape.draw(nt - 1, "s")))
            sched, results, expect = execute(tape, plan, False)
        else:
            sched, results, expect = s0, r0, e0
        out.count("histories")
        out.count("threads_%d" % nt)
        out.count("lexer_cache_capacity_%d" % lex_cap)
        out.count("deep_runs_preempting_inside_tokenising", 1 if deep else 0)
        out.count("configurations", nconf)
        out.count("preemptions_fired", sched.preempts_fired)
        out.count("lock_contention_blocks", sched.lock_blocks)
        out.count("steps", sched.gstep)
        for op in ops:
            out.count("op_" + op[0])
        out.decoded = {
            "configs": [{k: v for k, v in c.items() if v not in (None, False, "\n")} for c in confs], "lexer_cache_capacity": lex_cap,
            "sources": sources, "ops": [list(o) for o in ops], "thread_of_op": owner, "threads": nt,
            "plan(tid,local_step,target)": plan, "switch_trace": sched.trace[:40], "results": results,
        }
        out.trace = digest([sched.trace, results, [st.local_step for st in sched.threads]])
        if sched.abort == "deadlock":
            out.violate(("deadlock",), trace=sched.trace[-5:])
            return out
        if sched.abort:
            raise T.HarnessError("run aborted: " + sched.abort)
        for st in sched.threads:
            if st.exc is not None:
                raise T.HarnessError(f"harness thread raised {st.exc!r}")
        used = []
        reuse = False
        for i, op in enumerate(ops):
            if results[i] is not None and results[i][0] == "op-raised":
                out.violate(("operation-raised", op[0], results[i][1][0], "threads%d" % nt), op=i, got=results[i])
                return out
            if expect[i] is None:
                continue
            cfg, src, di, *nm = expect[i]
            ck = _key(cfg)
            if ck in used and used[-1] != ck:
                reuse = True
            used.append(ck)
            want = reference(cfg, src, di, nm[0] if nm else None, bool(nm[1]) if len(nm) > 1 else False)
            if results[i] != want:
                out.violate(("render-differs", op[0], results[i][0], want[0], "threads%d" % nt), op=i, got=results[i], expected=want)
                return out
        if reuse or (nt > 1 and (sched.preempts_fired or sched.lock_blocks)):
            out.case = digest([ops, owner, [_key(c) for c in confs], sched.trace, lex_cap])
    finally:
        _set_lexer_capacity(50)
        if gc_was:
            gc.enable()
    return out

def run_micro(tape: Tape) -> Outcome:
    """Two threads, two DIFFERENT configurations, one tiny source each (a multi-line string literal, a block, a comment):
    each thread creates its environment, compiles and renders - so both go through get_lexer, the shared Lexer objects
    and tokenising at the same time.  Besides a drawn plan, every step of the serial run that lies in lexer-cache /
    lexer / tokenising code is tried as a single pre-emption of either thread."""
    setup()
    import jinja2

    out = Outcome()
    ia = tape.draw(len(SYNTAXES))
    ib = (ia + 1 + tape.draw(len(SYNTAXES) - 1)) % len(SYNTAXES)
    sxs = [SYNTAXES[ia], SYNTAXES[ib]]
    cfgs = [_cfg_of(sx, bool(tape.draw(2))) for sx in sxs]
    if tape.draw(2):
        cfgs[1]["newline_sequence"] = ("\r\n", "\r", "\n")[tape.draw(3)]
    lex_cap = (50, 1, 2)[tape.draw(3)]
    via_template = [bool(tape.draw(3) == 2) for _ in sxs]  # Template(...) instead of Environment(...).from_string

    def src_of(sx):
        return (f"{sx.bs} if n1 is defined {sx.be}\n  <{sx.vs} 'p\nq' ~ s1 {sx.ve}>\n{sx.bs} endif {sx.be}  \n"
                f"{sx.cs} c {sx.ce}\n{sx.vs} \"a\nb\" {sx.ve}end\n")

    sources = [src_of(sx) for sx in sxs]
    data = make_data_seed(tape.draw(1 << 30, "d"))

    def render(i):
        if via_template[i]:
            return _render(lambda: jinja2.Template(sources[i], **cfgs[i]).render(data))
        return _render(lambda: jinja2.Environment(**cfgs[i]).from_string(sources[i]).render(data))

    clear_process_caches()
    refs = []
    for i in range(2):
        clear_process_caches()
        refs.append(render(i))

    def execute(sched_tape, plan, serial, record_regions=False):
        clear_process_caches()
        _set_lexer_capacity(lex_cap)
        sched = T.Sched(sched_tape, step_cap=2_000_000, line_level=True, record_regions=record_regions, wall_cap=60.0)
        sched.deep = True
        T.set_deep(True)
        results = [None, None]

        def body(i):
            def fn():
                results[i] = render(i)
            return fn

        for i in range(2):
            sched.spawn(body(i), f"T{i}")
        sched.plan(plan)
        if serial:
            sched.run_serial()
        else:
            sched.run()
        return sched, results

    gc_was = gc.isenabled()
    gc.disable()
    try:
        s0, r0 = execute(Tape(streams={}), [], True, record_regions=True)
        plans = []
        for tid in (0, 1):
            regs = s0.threads[tid].regions or []
            idx = [i for i, r in enumerate(regs) if r in ("lru", "shared", "lock", "compile")]
            if len(idx) > 64:
                idx = idx[:: max(len(idx) // 64, 1)][:64]
            plans += [[(tid, 1 + i, 0)] for i in idx]
        n = 0
        for plan in plans:
            sched, results = execute(tape, plan, False)
            n += 1
            if sched.abort == "deadlock":
                out.violate(("deadlock", "micro"), trace=sched.trace[-5:])
                break
            if sched.abort:
                raise T.HarnessError("run aborted: " + sched.abort)
            for st in sched.threads:
                if st.exc is not None:
                    raise T.HarnessError(f"harness thread raised {st.exc!r}")
            bad = [i for i in range(2) if results[i] != refs[i]]
            if bad:
                i = bad[0]
                out.violate(("render-differs", "micro", results[i][0], refs[i][0], "threads2"), thread=i, got=results[i],
                            expected=refs[i], plan=plan, serial_ok=r0[i] == refs[i])
                break
            # quiescence: whatever the overlapping runs left in process-global caches, each configuration renders as before
            post = [render(1), render(0)]
            if post[0] != refs[1] or post[1] != refs[0]:
                i = 1 if post[0] != refs[1] else 0
                out.violate(("render-differs", "micro-after-quiescence", (post[0] if i == 1 else post[1])[0], refs[i][0], "threads2"),
                            config=i, got=post[0] if i == 1 else post[1], expected=refs[i], plan=plan)
                break
        out.evals = max(n, 1)
        out.count("micro_runs")
        out.count("micro_schedules", n)
        out.decoded = {"kind": "micro", "configs": cfgs, "sources": sources, "via_Template": via_template,
                       "lexer_cache_capacity": lex_cap, "schedules_tried": n}
        out.trace = digest([n, [r_ for r_ in r0], lex_cap])
        if out.sig is None and n:
            out.case = digest(["micro", sources, [_key(c) for c in cfgs], via_template, lex_cap])
    finally:
        _set_lexer_capacity(50)
        T.set_deep(False)
        if gc_was:
            gc.enable()
    return out


_run_histories = run


def run(tape: Tape) -> Outcome:  # noqa: F811
    if tape.draw(8, "m") == 7:
        return run_micro(tape)
    return _run_histories(tape)


from sim.core import guarded as _guarded  # noqa: E402

run = _guarded(run)
