"""C38 - exceptions from data propagate unchanged and leave the engine usable.

One run = a history of 3-6 renders of templates of one generated set in ONE
environment (sync or async, plain or sandboxed), over Probe data that counts
every call / iteration step / attribute / item access / conversion as a data
event.  The ``f`` stream gives, per render, the index k of the data event that
raises (0 = none) and the exception kind (Exception / BaseException subclass).

A work unit runs the history clean to measure the number of events E_r of every
render r, then enumerates single-fault histories (render r, event k) for all
r, k (thorough) or a seeded sample (quick), plus multi-fault histories.

Oracle: a faulted render raises that very exception object (narrow exemption:
a fault fired inside the `sequence` capability test may be swallowed, as
documented); every other render of the history equals its isolated reference.
"""
from __future__ import annotations

import asyncio
import gc
import random

from sim import aioloop as A
from sim.adata import FAULT_CLASSES as _BASE_FAULTS, jinja_fault_classes
from sim.envs import clear_process_caches
from sim.core import native_text, Outcome, digest, exc_key, scrub
from sim.envs import AE_MODES, CodeMemo
from sim.probe import PEvents, make_probe_data
from sim.tape import Tape, run_seed
from sim.workload import Gen

ID = "C38"
LEVEL = "fault_enumeration"
RULE = (
    "work unit = one generated template set (extends/super, scoped blocks, includes, imports with and without context, "
    "macros/call blocks, loops, filters, tests, operators) over Probe data x a history of 3-6 renders (render / generate / "
    "buffered stream / module; async: render_async / generate_async / sync API / make_module_async) in one environment "
    "(Environment or SandboxedEnvironment, sync or async, autoescape on/off); the clean history gives E_r data events per "
    "render; then the k-th event of render r raises a private Exception, a private BaseException or a private subclass of ValueError / RuntimeError / OSError / ZeroDivisionError for every (r, k) "
    "(thorough) or a seeded sample (quick), plus histories with several faulted renders. Non-trivial = at least one fault "
    "fired and at least one clean render followed it; distinct = digest(program, history, fired faults)."
    " Further fault classes (ValueError / RuntimeError / OSError / ArithmeticError subclasses, a class that forbids attribute assignment); NativeEnvironment; optional debug and i18n (newstyle, translating catalog) extensions; the sandbox's safety-marker probes are data events; one faulted history in 24 repeats the faulted render 120 times before clean renders of every entry point (soak). Sync environments have a fifth entry point, Environment.compile_expression(...)(**data); two fault classes derive from the engine's own UndefinedError / TemplateRuntimeError (call-like events only); a private TypeError is also injected at string-conversion events; the injected message is a real-world one (\"not enough arguments for format string\")."
)
ASSUMPTIONS = [
    "the isolated reference render (fresh environment, fresh data, one render) of the same code is the oracle for clean renders",
    "a fault fired inside jinja2.tests.test_sequence may be swallowed (documented capability test); detected by inspecting the Python stack at the raise",
    "data events are those of the Probe classes in sim/probe.py (dunder attribute probes such as __html__ lookups are not events)",
]
REAL_STUB = {
    "real": ["jinja2 environment/runtime/compiled templates/sandbox/debug traceback rewriting", "asyncio tasks (async mode)"],
    "stub": ["data objects (Probe classes raising at the k-th event)", "event loop scheduling + clock in async mode (SimLoop)"],
}
BUDGET = {"quick": 40, "thorough": 600}
SYNC_APIS = ["render", "generate", "stream", "module", "compile_expression"]
# (the text of a real-world TypeError / ValueError of data code; an engine must not decide by message text either)
FAULT_MESSAGE = "injected: not enough arguments for format string"
NFAULTS = len(_BASE_FAULTS) + 2  # + the two classes of jinja_fault_classes()
# expressions for Environment.compile_expression over the probe data (sync environments; chosen by the data seed)
EXPRS = [
    "f1(o1.a) + l1|length",
    "d1.k1 if b1 else s1|upper",
    "lo|map(attribute='a')|list",
    "(l2|sum, s1 ~ s2, f2(2))",
    "o1.a.b.c",
    "nope",
    "gf(2) + f2(3) + gn",
    "lo|selectattr('b')|map(attribute='a')|join(',') ~ f1(1)",
    "gcx('s1') ~ (d1|length)",
    "(l1|first, l1|last, lc|sort|length)",
]

ASYNC_APIS = ["render_async", "generate_async", "render(sync-api)", "make_module_async"]

_setup_done = False


def setup() -> None:
    global _setup_done
    if _setup_done:
        return
    import sim

    sim.use_repo()
    import jinja2.debug  # noqa: F401
    import jinja2.ext  # noqa: F401
    import jinja2.sandbox  # noqa: F401

    A.install_policy()
    _setup_done = True


DBG = [False]  # jinja2.ext.debug loaded (set per run)
I18N = [False]  # jinja2.ext.i18n with newstyle gettext callables and a catalog that really translates


def _tr(s):
    return s.replace("text", "TEXT").replace("thing", "Ding")


def _make_env(P, sandboxed, is_async, ae, lc):
    """sandboxed: False plain, True sandboxed, 2 native environment."""
    import jinja2
    from jinja2.nativetypes import NativeEnvironment
    from jinja2.sandbox import SandboxedEnvironment

    cls = NativeEnvironment if sandboxed == 2 else SandboxedEnvironment if sandboxed else jinja2.Environment
    env = cls(
        loader=jinja2.DictLoader(P.templates), enable_async=is_async, autoescape=AE_MODES[ae],
        extensions=(["jinja2.ext.loopcontrols"] if lc else []) + (["jinja2.ext.debug"] if DBG[0] else [])
        + (["jinja2.ext.i18n"] if I18N[0] else []),
        bytecode_cache=CodeMemo(("c38", sandboxed, is_async, ae, lc, DBG[0], I18N[0])),
    )
    if I18N[0]:
        env.install_gettext_callables(_tr, lambda s, p, n: _tr(s if n == 1 else p), newstyle=True)
    gp = env.globals["gf"] = GlobalProbe()

    @jinja2.pass_context
    def gcx(ctx, name):
        if gp.ev is not None:
            gp.ev.ev("gcall")
        return ctx.resolve(name)

    class GStr:
        def __str__(self) -> str:
            if gp.ev is not None:
                gp.ev.ev("str")
            return "G!"

        def __repr__(self) -> str:
            return "GStr()"

    env.globals["gcx"] = gcx
    env.globals["gso"] = GStr()
    env.globals["gn"] = 3
    env.globals["gd"] = {"k1": 1, "k2": [2]}
    return env


class GlobalProbe:
    """Environment-level global callable: its calls are data events of whichever render is running
    (reachable from modules imported without context, i.e. while a cached module is being built)."""

    def __init__(self) -> None:
        self.ev = None

    def __call__(self, x=0):
        if self.ev is not None:
            self.ev.ev("gcall")
        from sim import workload as W

        return W.f1(x) + 1


def _render_once(env, is_async, entry, api, data, tape):
    """Returns ("ok", text) or ("raised", exc_object)."""
    policy = A.install_policy()
    try:
        if not is_async:
            tmpl = env.get_template(entry) if api != 4 else None
            if api == 0:
                return ("ok", tmpl.render(**data))
            if api == 1:
                return ("ok", "".join(map(str, tmpl.generate(**data))))
            if api == 4:
                return ("ok", env.compile_expression(entry)(**data))
            if api == 2:
                st = tmpl.stream(**data)
                st.enable_buffering(3)
                return ("ok", "".join(map(str, st)))
            return ("ok", str(tmpl.make_module(dict(data))))
        if api == 2:
            policy.factory = lambda: A.SimLoop(tape)
            try:
                tmpl = env.get_template(entry)
                return ("ok", tmpl.render(**data))
            finally:
                policy.factory = None
        loop = A.SimLoop(tape)

        async def go():
            tmpl = env.get_template(entry)
            if api == 0:
                return await tmpl.render_async(**data)
            if api == 1:
                chunks = []
                async for c in tmpl.generate_async(**data):
                    chunks.append(c)
                return "".join(map(str, chunks))
            return str(await tmpl.make_module_async(dict(data)))

        try:
            r, e = A.run_loop(loop, go())
        finally:
            A.close_loop(loop)
        if e is not None:
            return ("raised", e)
        return ("ok", r)
    except A.SimStall:
        raise
    except BaseException as e:  # noqa: BLE001 - outcome of the code under test
        return ("raised", e)


def _key(res):
    if res[0] == "ok":
        return ("ok", scrub(native_text(res[1])))
    return ("raised", exc_key(res[1]))


def run(tape: Tape) -> Outcome:
    setup()
    clear_process_caches()  # a run must not depend on the runs before it in this worker
    out = Outcome()
    FAULT_CLASSES = _BASE_FAULTS + jinja_fault_classes()
    sandboxed = bool(tape.draw(2))
    if tape.draw(6, "m") == 5:
        sandboxed = 2  # NativeEnvironment
    is_async = bool(tape.draw(2))
    ae = tape.draw(3)  # autoescape: off, on, by template name (callable)
    lc = bool(tape.draw(2))
    size = 2 + tape.draw(4)
    DBG[0] = tape.draw(6, "m") == 4
    I18N[0] = tape.draw(5, "m") == 4
    out.count("env_with_i18n_extension", 1 if I18N[0] else 0)
    out.count("env_with_debug_extension", 1 if DBG[0] else 0)
    P = Gen(tape, is_async=is_async, probe=True, loopcontrols=lc, size=size, env_globals=True, native=sandboxed == 2,
            debug_ext=DBG[0], i18n=I18N[0]).generate()
    nr = 3 + tape.draw(4)
    hist = []
    for _ in range(nr):
        entry = P.entry_points[tape.draw(len(P.entry_points))]
        api = tape.draw(4 if is_async else 5)
        dseed = tape.draw(1 << 30, "d")
        if api == 4:
            entry = EXPRS[dseed % len(EXPRS)]  # Environment.compile_expression(...)(**data)
        hist.append((entry, api, dseed))
    faults = []
    for _ in range(nr):
        k = tape.draw(4096, "f")
        exck = tape.draw(NFAULTS, "f")
        faults.append((k, exck))

    zero = Tape(streams={})
    gc_was = gc.isenabled()
    gc.disable()
    try:
        env = _make_env(P, sandboxed, is_async, ae, lc)
        refs: dict = {}

        def reference(entry, api, dseed):
            key = (entry, api, dseed)
            if key not in refs:
                renv = _make_env(P, sandboxed, is_async, ae, lc)
                rev = PEvents()
                renv.globals["gf"].ev = rev
                rdata = make_probe_data(dseed, rev, is_async=is_async, tape=zero)
                refs[key] = _key(_render_once(renv, is_async, entry, api, rdata, zero))
            return refs[key]

        events_per_render = []
        steps = []
        fired_list = []
        clean_after_fault = False
        any_fired = False
        for i, ((entry, api, dseed), (k, exck)) in enumerate(zip(hist, faults)):
            exc = None
            if k:
                exc = FAULT_CLASSES[exck](FAULT_MESSAGE)
            ev = PEvents(fault_at=k, exc=exc)
            env.globals["gf"].ev = ev
            data = make_probe_data(dseed, ev, is_async=is_async, tape=tape)
            try:
                res = _render_once(env, is_async, entry, api, data, tape)
            except A.SimStall as e:
                out.violate(("stall",), render=i, stall=str(e))
                break
            events_per_render.append(ev.n)
            apiname = (ASYNC_APIS if is_async else SYNC_APIS)[api]
            if ev.fired:
                any_fired = True
                out.count("fault_fired")
                out.count("fault_fired_event_" + str(ev.fired_kind))
                out.count("fault_fired_exc_" + FAULT_CLASSES[exck].__name__)
                out.count("fault_fired_api_" + apiname)
                fired_list.append((i, k, exck, ev.fired_kind))
                if res[0] == "raised" and res[1] is exc:
                    res[1].with_traceback(None)  # C-level: works for exception classes that forbid attribute assignment
                    steps.append((i, "fault-propagated"))
                    continue
                if ev.in_capability_test:
                    # the `sequence` test reports false instead (documented); what the
                    # render then does (other output, another error) is not judged
                    out.count("fault_swallowed_in_capability_test")
                    if res[0] == "raised":
                        res[1].with_traceback(None)  # C-level: works for exception classes that forbid attribute assignment
                    steps.append((i, "swallowed-by-capability-test"))
                    continue
                if res[0] == "ok":
                    out.violate(("fault-swallowed", ev.fired_kind, apiname), render=i, k=k, got=_key(res))
                else:
                    out.violate(("fault-replaced", type(res[1]).__name__, ev.fired_kind, apiname), render=i, k=k,
                                got=_key(res), cause_is_fault=getattr(res[1], "__cause__", None) is exc)
                break
            else:
                got = _key(res)
                if res[0] == "raised":
                    res[1].with_traceback(None)  # C-level: works for exception classes that forbid attribute assignment
                want = reference(entry, api, dseed)
                steps.append((i, got[0]))
                if got != want:
                    phase = "after-fault" if any_fired else "before-any-fault"
                    out.violate(("render-differs", phase, got[0], want[0]), render=i, got=got, expected=want)
                    break
                if any_fired:
                    clean_after_fault = True
        if out.sig is None and fired_list and tape.draw(24, "m") == 0:
            # SOAK: the same faulted render again and again (120 times), then every entry point clean: per-render
            # leaks too small to show in a short history (a counter, a growing list, a depth guard) add up
            fi, fk, fexck, _kind = fired_list[0]
            fentry, fapi, fdseed = hist[fi]
            soak_bad = None
            for rep_ in range(120):
                exc = FAULT_CLASSES[fexck](FAULT_MESSAGE)
                ev = PEvents(fault_at=fk, exc=exc)
                env.globals["gf"].ev = ev
                data = make_probe_data(fdseed, ev, is_async=is_async, tape=tape)
                res = _render_once(env, is_async, fentry, fapi, data, tape)
                if res[0] == "raised":
                    res[1].with_traceback(None)
                if ev.fired and not ev.in_capability_test and not (res[0] == "raised" and res[1] is exc):
                    soak_bad = ("fault-not-propagated-in-soak", type(res[1]).__name__ if res[0] == "raised" else "ok", rep_)
                    break
            out.count("soak_histories")
            if soak_bad is None:
                for entry in P.entry_points:
                    ev = PEvents()
                    env.globals["gf"].ev = ev
                    data = make_probe_data(fdseed, ev, is_async=is_async, tape=tape)
                    res = _render_once(env, is_async, entry, 0, data, tape)
                    got = _key(res)
                    if res[0] == "raised":
                        res[1].with_traceback(None)
                    if got != reference(entry, 0, fdseed):
                        soak_bad = ("render-differs-after-soak", got[0], reference(entry, 0, fdseed)[0])
                        break
            if soak_bad is not None:
                out.violate(soak_bad[:3] if soak_bad[0].startswith("render") else soak_bad[:2], entry=fentry, repeats=120, detail=str(soak_bad))
        out.count("histories")
        out.count("renders", len(events_per_render))
        out.count("data_events", sum(events_per_render))
        out.count("env_" + ("native" if sandboxed == 2 else "sandboxed" if sandboxed else "plain") + ("_async" if is_async else "_sync"))
        out.decoded = {
            "templates": P.templates, "sandboxed": sandboxed, "async": is_async, "autoescape": ae, "loopcontrols": lc,
            "history": [{"render": i, "entry": e, "api": (ASYNC_APIS if is_async else SYNC_APIS)[a], "data_seed": d,
                         "fault_at_event": faults[i][0] or None,
                         "fault_exc": FAULT_CLASSES[faults[i][1]].__name__ if faults[i][0] else None}
                        for i, (e, a, d) in enumerate(hist)],
            "events_per_render": events_per_render, "fired": fired_list, "steps": steps,
        }
        out.trace = digest([steps, events_per_render, fired_list])
        if out.sig is None and any_fired and clean_after_fault:
            out.case = digest([P.templates, hist, fired_list, sandboxed, is_async, ae])
    finally:
        if gc_was:
            gc.enable()
    return out



from sim.core import guarded as _guarded  # noqa: E402

run = _guarded(run)


def unit(index: int, seed: int, tier: str):
    base_seed = run_seed(seed, ID, index)
    rng = random.Random(base_seed ^ 0xC38)
    tp = Tape(base_seed, preset={"f": []})
    o = run(tp)
    yield tp, o
    if o.sig is not None:
        return
    E = o.decoded["events_per_render"]
    nr = len(E)
    w = list(tp.streams.get("w", []))
    d = list(tp.streams.get("d", []))
    plans = []
    for r in range(nr):
        for k in range(1, E[r] + 1):
            # the private Exception, the private BaseException and one of the ValueError / RuntimeError / OSError /
            # ArithmeticError subclasses (a narrowed or broadened except clause usually names a standard class)
            for exck in (0, 1, 2 + rng.randrange(NFAULTS - 2)):
                f = [0, 0] * nr
                f[2 * r], f[2 * r + 1] = k, exck
                plans.append(f)
    limit = 48 if tier == "quick" else 3000
    total_positions = len(plans)
    if len(plans) > limit:
        plans = rng.sample(plans, limit)
    # a few multi-fault histories
    for _ in range(4 if tier == "quick" else 40):
        f = []
        for r in range(nr):
            if E[r] and rng.random() < 0.5:
                f += [1 + rng.randrange(E[r]), rng.randrange(NFAULTS)]
            else:
                f += [0, 0]
        plans.append(f)
    for j, f in enumerate(plans):
        tp2 = Tape(base_seed + 1 + j, preset={"w": w, "d": d, "f": f})
        o2 = run(tp2)
        if j == 0:
            o2.count("units_all_fault_positions_enumerated" if total_positions <= limit else "units_fault_positions_sampled")
            o2.count("fault_positions_total", total_positions)
        yield tp2, o2
