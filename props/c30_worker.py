"""Fresh-interpreter worker for C30: compiles a corpus in a given process history
and prints the sha256 of every generated source (two passes).

stdin: JSON {"corpus": [{"id", "name", "source", "cfg": {async, sandboxed, i18n, loopcontrols}}],
             "order1": [...], "order2": [...], "unrelated": [sources], "dump": [ids] }
stdout: JSON {"hashseed", "pass1": {id: digest}, "pass2": {...}, "dumped": {id: source}}
"""
import hashlib
import json
import os
import sys

sys.path.insert(0, os.path.dirname(os.path.dirname(os.path.abspath(__file__))))
import sim  # noqa: E402

sim.use_repo()
import jinja2  # noqa: E402
import jinja2.meta  # noqa: E402
from jinja2.sandbox import SandboxedEnvironment  # noqa: E402


@jinja2.pass_environment
def _finalize(env, value):
    """A finalize callable shared by every environment that has one; its result depends on the environment."""
    if isinstance(value, int) and not isinstance(value, bool):
        return f"<{int(bool(env.autoescape))}{int(env.is_async)}:{value}>"
    return value


def make_env(cfg):
    cls = SandboxedEnvironment if cfg.get("sandboxed") else jinja2.Environment
    ext = []
    if cfg.get("i18n"):
        ext.append("jinja2.ext.i18n")
    if cfg.get("loopcontrols"):
        ext.append("jinja2.ext.loopcontrols")
    ae = cfg.get("autoescape")
    if ae == "select":
        # decided per template NAME, with multi-segment extensions: one callable shared by every compilation of the environment
        ae = jinja2.select_autoescape(enabled_extensions=("html.j2", "xml.j2", "htm"), disabled_extensions=("txt.j2",), default=False)
    return cls(enable_async=bool(cfg.get("async")), extensions=ext, autoescape=ae if callable(ae) else bool(ae),
               finalize=_finalize if cfg.get("finalize") else None)


def main():
    job = json.load(sys.stdin)
    corpus = {c["id"]: c for c in job["corpus"]}
    envs = {}

    import random

    drng = random.Random(job.get("dseed", 0))
    disturb = bool(job.get("dseed"))
    DISTURBANCES = [
        lambda e, s: e.compile_expression("price|nosuchfilter_zz"),          # parses, fails while code is generated
        lambda e, s: e.compile_expression("x is nosuchtest_zz"),
        lambda e, s: e.compile_expression("a + b|default(1)"),               # succeeds
        lambda e, s: e.compile_expression("10 ** 5000 ~ x"),
        lambda e, s: e.from_string("{% macro m(a=1|nosuch_zz) %}{% endmacro %}"),
        lambda e, s: e.from_string("{% set q = 1|nosuch_zz %}{% for i in q %}{% endfor %}"),
        lambda e, s: e.parse("{% for %}"),
        lambda e, s: list(e.lex(s[:80])),
        lambda e, s: jinja2.meta.find_undeclared_variables(e.parse(s)),
        lambda e, s: list(jinja2.meta.find_referenced_templates(e.parse(s))),
        lambda e, s: e.from_string("{% if x %}{{ y }}").render(),
        lambda e, s: e.from_string("{% trans %}Hello {{ user.name }}{% endtrans %}"),      # not allowed inside trans: fails in the extension
        lambda e, s: e.from_string("{% trans a=1 %}x {{ a }}{% if a %}{% endif %}{% endtrans %}"),
        lambda e, s: e.from_string("{% trans %}never closed {{ name }}"),
    ]

    def compile_one(cid):
        c = corpus[cid]
        key = json.dumps(c["cfg"], sort_keys=True)
        env = envs.get(key)
        if env is None:
            env = envs[key] = make_env(c["cfg"])
        if disturb and drng.randrange(4) == 0:
            # something else happens in this environment first (often: a compilation that FAILS half-way)
            try:
                DISTURBANCES[drng.randrange(len(DISTURBANCES))](env, c["source"])
            except Exception:
                pass
        try:
            return env.compile(c["source"], c["name"], None, raw=True)
        except jinja2.TemplateSyntaxError as e:
            return "SYNTAXERROR:" + str(e)
        except Exception as e:  # a crash of the compiler is an outcome too
            return "COMPILER-RAISED:" + type(e).__name__ + ":" + str(e)[:200]

    out = {"hashseed": os.environ.get("PYTHONHASHSEED"), "pass1": {}, "pass2": {}, "dumped": {}}
    for cid in job["order1"]:
        out["pass1"][str(cid)] = hashlib.sha256(compile_one(cid).encode()).hexdigest()
    # history between the passes: clear caches, unrelated compilations, new environments
    jinja2.clear_caches()
    envs.clear()
    scratch = jinja2.Environment()
    for s in job.get("unrelated", []):
        try:
            scratch.compile(s, raw=True)
        except jinja2.TemplateSyntaxError:
            pass
    for cid in job["order2"]:
        src = compile_one(cid)
        out["pass2"][str(cid)] = hashlib.sha256(src.encode()).hexdigest()
        if cid in job.get("dump", []):
            out["dumped"][str(cid)] = src
    json.dump(out, sys.stdout)


main()
