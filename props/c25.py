"""C25 - the template cache always serves the current template source.

System: a real Environment (real _load_template, LRUCache, loaders) over
simulated storage: a mutable dict for DictLoader, a function over the same
dict for FunctionLoader (bare string -> no up-to-date check, or a
(source, None, uptodate) triple), and FileSystemLoader over SimFS with the
simulated clock.

A run is a history of 4-14 operations (get / select / modify / delete / add /
swap_loader / clock tick forward, held or BACKWARDS / gc), checked operation by
operation against a small executable reference model of the cache, only through
observables: which source version the rendered text shows, TemplateNotFound /
TemplatesNotFound, and len(env.cache) <= n.

Faulted runs (a separate configuration): for one operation an EIO is armed on
the next ``open`` or the next ``getmtime``.  That operation may raise exactly
that OSError (or, if the fault hit the up-to-date check, must reload); every
operation after it is checked strictly again.
"""
from __future__ import annotations

import gc
import re
from collections import OrderedDict

from sim import simfs as F
from sim import threads as T
from sim.tape import Tape
from sim.envs import clear_process_caches
from sim.core import Outcome, digest

ID = "C25"
LEVEL = "exploration"
RULE = (
    "seeded histories of 4-14 operations over 2-3 template names (get, select, modify, delete, add, swap_loader, clock tick "
    "forward / held / backwards, gc) on DictLoader, FunctionLoader (with and without an up-to-date check) and FileSystemLoader "
    "over a simulated file system and clock; auto_reload on/off; cache sizes 0, 1, 2, 3, -1, 400; every operation compared with "
    "a reference cache model through rendered version / TemplateNotFound / len(cache); optional injected EIO on open or "
    "getmtime for one operation (FileSystemLoader). Non-trivial = the history contains a get/select that the model answers from "
    "the cache after an intervening modify/delete/swap/tick, or an eviction, or a fired fault; distinct = digest(config, history). "
    "One run in four is CONCURRENT: 1-2 reader threads (get/select on an environment or its overlay) and an external writer "
    "(modify/delete/add, clock ticked) under the baton scheduler with 0-3 drawn pre-emptions at source lines of environment.py / "
    "loaders.py / utils.py, instructions inside LRUCache and simulated syscalls; an in-flight operation may observe any version "
    "current inside its window (or fail with the storage's own lookup error when the file/key was deleted under it), and after "
    "quiescence every lookup is checked strictly again (current source, repeatable, capacity); non-trivial there = a source "
    "change landed strictly inside an operation's invoke/return window."
    " Loader kind pkg: PackageLoader over a package directory in the simulated file system (sequential and concurrent mode)."
    " Every third lookup passes a template-level global that no template reads (a new value each time): the lookup must behave exactly like one without globals."
)
ASSUMPTIONS = [
    "the reference cache model (LRU of (loader, name) with touch-on-lookup, evict-oldest-on-insert, hit requires not auto_reload or up-to-date) states the documented behaviour",
    "FileSystemLoader's up-to-date check is 'mtime differs => reload'; when a file is rewritten without an mtime change (held clock) either version is accepted until the next change",
    "single search path (the property's quantifier); ChoiceLoader / multi-directory shadowing not covered",
]
REAL_STUB = {
    "real": ["jinja2.Environment.get_template/select_template/_load_template", "LRUCache", "DictLoader/FunctionLoader/FileSystemLoader/PackageLoader/ChoiceLoader/PrefixLoader", "compiler (tiny templates)"],
    "stub": ["file system + clock (SimFS, SimClock) behind jinja2.loaders.os/open", "loader storage (mutable dict)",
             "thread scheduler (baton passing; sys.monitoring LINE/INSTRUCTION events) and threading.Lock -> SimLock in concurrent runs"],
}
BUDGET = {"quick": 26, "thorough": 600}
NAMES = ("a", "b", "c")
SIZES = (2, 0, 1, 3, -1, 400)
KINDS = ("dict", "func-str", "func-triple", "fs", "fs2", "choice", "prefix", "choice-fs", "pkg")
SIM_PACKAGE = "jv_simpkg"  # a package whose directory lives in the simulated file system (PackageLoader)
_VER = re.compile(r"^\[?(\w+):v(\d+):7\]?$")
CHILD = "k"  # a template that extends 'a' and wraps its block in [ ... super() ... ]; its own source never changes
CHILD_SRC = "{% extends 'a' %}{% block b %}[{{ super() }}]{% endblock %}"
# second flavour: the child includes (tolerating only its OWN absence) a helper that includes 'a' plainly - a missing
# 'a' must still surface as TemplateNotFound through both levels
CHILD_SRC_INC = "[{% include 'k2' ignore missing %}]"
HELPER = "k2"
HELPER_SRC = "{% include 'a' %}"
_setup_done = False


def setup() -> None:
    global _setup_done
    if _setup_done:
        return
    import sim

    src = sim.use_repo()
    F.install()
    # concurrent mode: baton-passed threads, pre-empted at source lines of every function of environment.py /
    # loaders.py / utils.py (a second monitoring tool, switched on only for those runs) and at bytecode
    # instructions inside LRUCache; lexer / parser / compiler are not pre-empted (thread-private work)
    import jinja2.debug  # noqa: F401
    import jinja2.ext  # noqa: F401
    import jinja2.environment as E
    import jinja2.loaders as L
    import jinja2.utils as U

    T.install(src, line_events=False, instr_classes=[U.LRUCache, __import__("functools").cached_property])
    T.install_deep(T.module_functions(E) + T.module_functions(L) + T.module_functions(U, exclude_classes=[U.LRUCache]))
    U.Lock = T.SimLock
    T.neutralise_real_locks()
    T.install_threading_factories()
    _setup_done = True


class Storage:
    """The truth: which version each file holds, per loader generation.  kind 'fs2' has two search
    directories (an override directory searched first, then a default directory)."""

    def __init__(self, kind: str, fs: F.SimFS) -> None:
        self.kind = kind
        self.fs = fs
        self.next_version = 1
        self.gen = 0
        self.mapping: dict[str, str] = {}
        self.files: dict[tuple[int, str], int] = {}
        self.cur: dict[str, int] = {}
        self.ndirs = 2 if kind in ("fs2", "choice", "choice-fs") else 1
        self.dirs = [F.ROOT + f"t0d{i}" for i in range(self.ndirs)]
        self.mappings: list[dict[str, str]] = [{}, {}]  # kind 'choice': one mapping per delegate loader
        self.child_includes = False
        self.outage = False  # kind 'func-triple': while set, load() and the up-to-date check raise OSError
        self.outage_hits = 0

    @property
    def is_fs(self) -> bool:
        return self.kind in ("fs", "fs2", "choice-fs", "pkg")

    def src(self, name: str, v: int) -> str:
        if name == CHILD:
            return CHILD_SRC_INC if self.child_includes else CHILD_SRC
        if name == HELPER:
            return HELPER_SRC
        return "{% block b %}" + f"{name}:v{v}:{{{{ x }}}}" + "{% endblock %}"

    def _recompute(self, name: str) -> None:
        for di in range(self.ndirs):
            if (di, name) in self.files:
                self.cur[name] = self.files[(di, name)]
                return
        self.cur.pop(name, None)

    def write(self, name: str, di: int = 0) -> int:
        di = di % self.ndirs
        v = self.next_version
        self.next_version += 1
        self.files[(di, name)] = v
        if self.is_fs:
            self.fs.put(f"{self.dirs[di]}/{name}", self.src(name, v).encode())
        elif self.kind == "choice":
            self.mappings[di][name] = self.src(name, v)
        else:
            self.mapping[name] = self.src(name, v)
        self._recompute(name)
        return v

    def delete(self, name: str, di: int = 0) -> None:
        di = di % self.ndirs
        self.files.pop((di, name), None)
        if self.is_fs:
            self.fs.unlink(f"{self.dirs[di]}/{name}")
        elif self.kind == "choice":
            self.mappings[di].pop(name, None)
        else:
            self.mapping.pop(name, None)
        self._recompute(name)

    def path_of(self, name: str):
        """Path of the file a fresh load of `name` reads (first search directory that has it)."""
        for di in range(self.ndirs):
            if (di, name) in self.files:
                return f"{self.dirs[di]}/{name}"
        return None

    def mtime_path(self, path):
        ino = self.fs.names.get(path) if path else None
        return None if ino is None else ino.mtime

    def version_at(self, path):
        for di in range(self.ndirs):
            pre = self.dirs[di] + "/"
            if path and path.startswith(pre):
                return self.files.get((di, path[len(pre):]))
        return None

    def make_loader(self):
        import jinja2

        if self.kind == "dict":
            return jinja2.DictLoader(self.mapping)
        if self.kind == "choice":
            # delegating loaders override load(): the up-to-date check of the delegate that served must survive
            return jinja2.ChoiceLoader([jinja2.DictLoader(m_) for m_ in self.mappings])
        if self.kind == "prefix":
            return jinja2.PrefixLoader({"p": jinja2.DictLoader(self.mapping)})
        m = self.mapping
        if self.kind == "func-str":
            return jinja2.FunctionLoader(lambda name: m.get(name))
        if self.kind == "func-triple":
            st_ = self

            def boom():
                import errno

                e = OSError(errno.EIO, "storage outage (injected)")
                st_.fs.last_injected_error = e
                st_.fs.injected.append(e)
                st_.outage_hits += 1
                return e

            def load(name):
                if st_.outage:
                    raise boom()
                s = m.get(name)
                if s is None:
                    return None

                def uptodate():
                    if st_.outage:
                        raise boom()  # like the loader in the BaseLoader docstring: getmtime() of unreachable storage
                    return m.get(name) == s

                return s, None, uptodate
            return jinja2.FunctionLoader(load)
        if self.kind == "pkg":
            # PackageLoader over a package directory in the simulated file system (same up-to-date rule as
            # FileSystemLoader: the file exists and its mtime is the one read at load time)
            import importlib.machinery
            import sys
            import types

            root = F.ROOT.rstrip("/")
            mod = types.ModuleType(SIM_PACKAGE)
            spec = importlib.machinery.ModuleSpec(SIM_PACKAGE, loader=object(), is_package=True)
            spec.submodule_search_locations = [root]
            mod.__spec__ = spec
            mod.__path__ = [root]
            sys.modules[SIM_PACKAGE] = mod
            return jinja2.PackageLoader(SIM_PACKAGE, self.dirs[0][len(root) + 1:])
        if self.kind == "choice-fs":
            # a failing delegate (I/O error) must not make the choice fall through to the shadowed copy
            return jinja2.ChoiceLoader([jinja2.FileSystemLoader(d_) for d_ in self.dirs])
        return jinja2.FileSystemLoader(self.dirs[0] if self.ndirs == 1 else list(self.dirs))

    def rebind(self, drop=None) -> None:
        """A NEW mapping object (same storage generation): every name gets a new version, `drop` disappears."""
        old = dict(self.files)
        self.files = {}
        self.cur = {}
        self.mapping = {}
        for (di, name) in old:
            if name != drop:
                self.write(name, di)

    def swap(self) -> None:
        """New storage generation with different content for every name."""
        self.gen += 1
        old = dict(self.files)
        self.files = {}
        self.cur = {}
        if self.is_fs:
            self.dirs = [F.ROOT + f"t{self.gen}d{i}" for i in range(self.ndirs)]
        else:
            self.mapping = {}
            self.mappings = [{}, {}]
        for (di, name) in old:
            self.write(name, di)


def _mem_bytecode_cache():
    """A per-run in-memory bytecode cache through jinja's documented extension point (real Bucket checksum /
    marshal path).  It must never change what the template cache serves."""
    import jinja2

    class MemBC(jinja2.BytecodeCache):
        def __init__(self):
            self.d = {}

        def load_bytecode(self, bucket):
            s_ = self.d.get(bucket.key)
            if s_ is not None:
                bucket.bytecode_from_string(s_)

        def dump_bytecode(self, bucket):
            self.d[bucket.key] = bucket.bytecode_to_string()

    return MemBC()


def canon(name: str) -> str:
    """'./a' and 'a' are the same file for FileSystemLoader but different cache keys."""
    return name[2:] if name.startswith(("./", "p/")) else name


class Model:
    """Reference template cache (one per environment)."""

    def __init__(self, size: int, auto_reload: bool, kind: str) -> None:
        self.size = size
        self.auto_reload = auto_reload
        self.kind = kind
        self.lru: OrderedDict = OrderedDict()  # (gen, name) -> dict(version, mtime)

    def lookup(self, st: Storage, name: str, fault: dict):
        """Returns (set of acceptable outcomes, resolver).  Outcomes: int version, 'notfound', 'oserror'.
        ``fault`` is {"kind": "open"|"getmtime"|None}; the kind is cleared when the model says it is consumed."""
        key = (st.gen, name)
        name = canon(name)
        ent = None
        if fault["kind"] == "outage":
            # storage unreachable for this whole operation: only a cached template that needs no check is served
            if self.size != 0 and key in self.lru and not self.auto_reload:
                if self.size > 0:
                    self.lru.move_to_end(key)
                return {self.lru[key]["version"]}, None
            if self.size != 0 and key in self.lru and self.size > 0:
                self.lru.move_to_end(key)  # the lookup touched the entry before its check failed
            return {"oserror"}, None
        if self.size != 0 and key in self.lru:
            ent = self.lru[key]
            if self.size > 0:
                self.lru.move_to_end(key)
            if not self.auto_reload:
                return {ent["version"]}, None
            fresh = self._uptodate(st, name, ent, fault)
            if fresh is True:
                return {ent["version"]}, None
            if fresh == "either":
                # same mtime, different content: the loader's check is legitimately blind.  A reload reads the
                # file a fresh load finds (first search directory), which may differ from the watched one.
                cur = st.cur.get(name)
                def resolve(obs):
                    if obs == cur:
                        self._insert(key, st, name)
                return {ent["version"], cur}, resolve
        # load
        cur = st.cur.get(name)
        if cur is None:
            return {"notfound"}, None
        if self.kind in ("fs", "fs2", "choice-fs") and fault["kind"] in ("open", "getmtime"):
            fault["kind"] = None
            return {"oserror"}, None
        self._insert(key, st, name)
        return {cur}, None

    def _uptodate(self, st: Storage, name: str, ent, fault):
        if self.kind == "func-str":
            return True
        cur = st.cur.get(name)
        if self.kind in ("dict", "func-triple", "prefix"):
            return cur == ent["version"]
        if self.kind == "choice":
            # the delegate that served the template watches only its own mapping
            return st.files.get((ent["di"], name)) == ent["version"]
        if fault["kind"] == "getmtime":
            fault["kind"] = None  # consumed by the up-to-date check, which then reports "changed"
            return False
        # the up-to-date check only watches the file the entry was loaded from
        mt = st.mtime_path(ent["path"])
        if mt is None or mt != ent["mtime"]:
            return False
        if st.version_at(ent["path"]) != ent["version"]:
            return "either"
        return True

    def _insert(self, key, st: Storage, name: str) -> None:
        if self.size == 0:
            return
        if key in self.lru:
            del self.lru[key]
        elif self.size > 0 and len(self.lru) >= self.size:
            self.lru.popitem(last=False)
            self.evictions += 1
        path = st.path_of(name) if st.is_fs else None
        di = next((i for i in range(st.ndirs) if (i, name) in st.files), 0)
        self.lru[key] = {"version": st.cur[name], "path": path, "mtime": st.mtime_path(path) if st.is_fs else None, "di": di}

    evictions = 0


OBS = [0]  # observations made in this run (reset per run); every third lookup passes template-level globals


def _observe(env, names, fs):
    """get/select + render -> observed outcome."""
    import jinja2

    OBS[0] += 1
    # documented: globals given for an already cached template are merged into it; a name no template reads, a new
    # value each time - the lookup itself must behave exactly like one without globals
    g_ = {"zz_unused": OBS[0]} if OBS[0] % 3 == 0 else None
    try:
        if isinstance(names, str):
            t = env.get_template(names, globals=g_)
        else:
            t = env.select_template(list(names), globals=g_)
        out = t.render(x=7)
    except jinja2.TemplatesNotFound:
        return "notfound", None
    except jinja2.TemplateNotFound:
        return "notfound", None
    except OSError as e:
        return "oserror", e
    except Exception as e:  # anything else out of get_template is an outcome, never a harness error
        return ("raised", type(e).__name__), None
    m = _VER.match(out)
    if not m:
        return ("garbage", out), None
    return int(m.group(2)), m.group(1)


def _cur_between(hist, name, lo, hi):
    """Versions (None = absent) that were current for `name` at some stamp in [lo, hi]."""
    h = hist[name]
    res = set()
    for i, (s_, v) in enumerate(h):
        end = h[i + 1][0] if i + 1 < len(h) else float("inf")
        if s_ <= hi and end >= lo:
            res.add(v)
    return res


CONC_KINDS = ("fs", "dict", "func-triple", "func-str", "pkg")


def run_concurrent(tape) -> Outcome:
    """Readers (get / select on one environment or its overlay) and one external writer (modify / delete / add,
    each after a clock tick so the mtime always changes) as simulated threads; pre-emption at source lines of
    environment.py / loaders.py / utils.py, at instructions inside LRUCache and at every simulated syscall.

    Oracle.  During the phase an operation may observe any version that was current at some instant between its
    invoke and its return (or, where the documented behaviour is "no reload", any earlier version); it raises
    nothing but TemplateNotFound (only if every requested name was absent at some instant of its window) or the
    OSError of a file deleted under its feet.  AFTER the phase (quiescence, clock ticked) the check is strict
    again: with auto-reload and an up-to-date check every name renders its current source or is not found; a
    size-0 cache always serves the current source; a repeated lookup returns the same; capacity holds."""
    import jinja2

    out = Outcome()
    OBS[0] = 0
    kind = CONC_KINDS[tape.draw(len(CONC_KINDS))]
    auto_reload = tape.draw(4) != 0
    size = SIZES[tape.draw(len(SIZES))]
    nnames = 1 + tape.draw(2)
    names = NAMES[:nnames]
    nreaders = 1 + tape.draw(2)
    two_envs = tape.draw(3) == 2
    rprogs = []
    for _ in range(nreaders):
        ops = []
        for _ in range(1 + tape.draw(2)):
            ei = tape.draw(2) if two_envs else 0
            if tape.draw(4) == 0:
                ops.append((ei, [tape.pick(names) for _ in range(1 + tape.draw(2))]))
            else:
                ops.append((ei, tape.pick(names)))
        rprogs.append(ops)
    wops = [(("modify", "modify", "delete", "add")[tape.draw(4)], tape.pick(names)) for _ in range(1 + tape.draw(3))]
    warm = [(tape.draw(2) if two_envs else 0, tape.pick(names)) for _ in range(tape.draw(3))]
    initial = [tape.draw(4) != 0 for _ in names]
    with_bcc = tape.draw(3, "m") == 2

    def execute(sched_tape, plan, serial):
        clear_process_caches()
        clock = F.SimClock()
        fs = F.use(F.SimFS(clock))
        st = Storage(kind, fs)
        hist = {n: [(0, None)] for n in names}
        for n, present in zip(names, initial):
            if present:
                hist[n] = [(0, st.write(n))]
        env0 = jinja2.Environment(loader=st.make_loader(), auto_reload=auto_reload, cache_size=size,
                                  bytecode_cache=_mem_bytecode_cache() if with_bcc else None)
        envs = [env0, env0.overlay()] if two_envs else [env0]
        for e_ in envs:
            T.scan_replace_locks(e_)
            if e_.cache is not None:
                T.scan_replace_locks(e_.cache)
            e_.lexer  # noqa: B018 - built outside the simulated run
        for ei, n in warm:
            _observe(envs[ei], n, fs)
        sched = T.Sched(sched_tape, step_cap=400_000, line_level=True, wall_cap=30.0)
        sched.fs = fs
        fs.sched = sched
        records = [[None] * len(ops) for ops in rprogs]

        def reader(tid, ops):
            def fn():
                for j, (ei, arg) in enumerate(ops):
                    inv = sched.stamp()
                    obs, extra = _observe(envs[ei], arg, fs)
                    records[tid][j] = (inv, sched.stamp(), obs, extra)
            return fn

        def writer():
            for what, n in wops:
                sched.yield_point("sys")
                clock.advance(1.0)
                if what == "delete":
                    st.delete(n)
                    hist[n].append((sched.stamp(), None))
                elif what == "add" and n in st.cur:
                    continue
                else:
                    hist[n].append((sched.stamp(), st.write(n)))
            sched.yield_point("sys")

        for tid, ops in enumerate(rprogs):
            sched.spawn(reader(tid, ops), f"R{tid}")
        sched.spawn(writer, "W")
        sched.plan(plan)
        T.set_deep(True)
        try:
            if serial:
                sched.run_serial()
            else:
                sched.run()
        finally:
            T.set_deep(False)
            fs.sched = None
        return sched, records, hist, st, envs, fs, clock

    s0 = execute(Tape(streams={}), [], True)[0]
    horizons = [max(th.local_step, 1) for th in s0.threads]
    nthreads = nreaders + 1
    plan = []
    for _ in range(tape.draw(4, "s")):
        if tape.draw(4, "s"):
            tid = tape.draw(nreaders, "s")
            tgt = tape.draw(nthreads - 1, "s") if tape.draw(3, "s") == 0 else None
        else:
            tid, tgt = nreaders, tape.draw(nthreads - 1, "s")
        step = 1 + tape.draw(horizons[tid], "s")
        if tgt is None:
            # aim at the writer: candidates are the runnable threads other than `tid`, in tid order; the writer is last
            tgt = nthreads - 2
        plan.append((tid, step, tgt))
    sched, records, hist, st, envs, fs, clock = execute(tape, plan, False)
    out.count("concurrent_runs")
    out.count("preemptions_fired", sched.preempts_fired)
    out.count("lock_contention_blocks", sched.lock_blocks)
    out.count("conc_loader_" + kind)
    out.count("runs_with_bytecode_cache", 1 if with_bcc else 0)
    dec = {"mode": "concurrent", "loader": kind, "auto_reload": auto_reload, "cache_size": size, "names": names,
           "environments": len(envs), "bytecode_cache": with_bcc, "initial": initial, "warmup": warm, "readers": rprogs, "writer": wops,
           "plan(tid,local_step,target)": plan, "switch_trace": sched.trace[:40],
           "timeline": {n: hist[n] for n in names}, "records": [[list(map(str, r)) if r else None for r in rs] for rs in records]}
    out.decoded = dec
    out.trace = digest([sched.trace, [[(r[0], r[1], str(r[2])) if r else None for r in rs] for rs in records]])
    out.sim_time = clock.covered
    cfgsig = (kind, "auto_reload" if auto_reload else "no_reload", f"size{size}")
    if sched.abort == "deadlock":
        out.violate(("conc-deadlock",) + cfgsig, trace=sched.trace[-5:])
        return out
    if sched.abort:
        raise T.HarnessError("run aborted: " + sched.abort)
    for th in sched.threads:
        if th.exc is not None:
            raise T.HarnessError(f"harness thread raised {th.exc!r}")
    stale_ok = size != 0 and (not auto_reload or kind == "func-str")
    overlapped = False
    end = sched.evseq + 1
    for tid, ops in enumerate(rprogs):
        for j, (ei, arg) in enumerate(ops):
            rec = records[tid][j]
            if rec is None:
                out.violate(("conc-op-did-not-return",) + cfgsig, thread=tid, op=j)
                return out
            inv, ret, obs, extra = rec
            req = [arg] if isinstance(arg, str) else list(arg)
            if any(inv < s_ < ret for n in req for (s_, _v) in hist[n]):
                overlapped = True
            if isinstance(obs, int):
                n = extra
                ok = n in req and (obs in _cur_between(hist, n, inv, ret) or (stale_ok and obs in _cur_between(hist, n, 0, ret)))
                if not ok:
                    out.violate(("conc-version-never-current-in-window",) + cfgsig, thread=tid, op=j, observed=obs, window=[inv, ret])
                    return out
            elif obs == "notfound":
                if not all(None in _cur_between(hist, n, inv, ret) for n in req):
                    out.violate(("conc-notfound-but-present",) + cfgsig, thread=tid, op=j, window=[inv, ret])
                    return out
            elif obs == "oserror":
                deleted_in_window = any(inv < s_ < ret and v is None for n in req for (s_, v) in hist[n])
                if not (kind in ("fs", "pkg") and deleted_in_window and isinstance(extra, FileNotFoundError)):
                    out.violate(("conc-unexpected-oserror",) + cfgsig, thread=tid, op=j, error=repr(extra))
                    return out
            elif obs == ("raised", "KeyError") and kind == "dict" and any(inv < s_ < ret and v is None for n in req for (s_, v) in hist[n]):
                # the mapping lost the key between DictLoader's membership test and its item access: an in-flight
                # operation that failed because of the concurrent deletion (like the OSError above), not wrong data
                out.count("conc_inflight_lookup_failed_by_delete")
            else:
                out.violate(("conc-raised",) + cfgsig, thread=tid, op=j, observed=str(obs))
                return out
    # quiescence: strict again
    clock.advance(1.0)
    strict = size == 0 or (auto_reload and kind != "func-str")
    post = []
    for ei, env in enumerate(envs):
        for n in names:
            cur = st.cur.get(n)
            o1, _x = _observe(env, n, fs)
            o2, _x = _observe(env, n, fs)
            post.append([f"env{ei}", n, str(o1), str(o2), "current=" + str(cur)])
            want = cur if cur is not None else "notfound"
            if strict:
                bad = o1 != want
            else:
                bad = not ((isinstance(o1, int) and o1 in _cur_between(hist, n, 0, end)) or (o1 == "notfound" and cur is None))
            if bad:
                what = "stale" if isinstance(o1, int) and isinstance(want, int) and o1 < want else "wrong"
                out.violate(("conc-" + what + "-after-quiescence",) + cfgsig, env=ei, name=n, observed=str(o1), expected=str(want), post=post)
                return out
            if o2 != o1:
                out.violate(("conc-repeat-differs-after-quiescence",) + cfgsig, env=ei, name=n, first=str(o1), second=str(o2))
                return out
        if size > 0 and len(env.cache) > size:
            out.violate(("over-capacity", f"size{size}"), env=ei)
            return out
    dec["post_quiescence"] = post
    if overlapped:
        out.count("conc_change_inside_an_operation_window")
        out.case = digest(["conc", kind, auto_reload, size, with_bcc, rprogs, wops, warm, initial, sched.trace])
    return out


def run(tape) -> Outcome:
    setup()
    clear_process_caches()  # a run must not depend on the runs before it in this worker
    import jinja2

    if tape.draw(4, "m") == 3:
        gc_was = gc.isenabled()
        gc.disable()
        try:
            return run_concurrent(tape)
        finally:
            if gc_was:
                gc.enable()
    out = Outcome()
    OBS[0] = 0
    kind = KINDS[tape.draw(len(KINDS))]
    auto_reload = not bool(tape.draw(2))
    size = SIZES[tape.draw(len(SIZES))]
    nnames = 2 + tape.draw(2)
    names = NAMES[:nnames]
    faulty = kind in ("fs", "fs2", "choice-fs", "func-triple") and tape.draw(4, "f") == 3
    nops = 4 + tape.draw(11)

    clock = F.SimClock()
    fs = F.use(F.SimFS(clock))
    st = Storage(kind, fs)
    for n in names[: 1 + tape.draw(nnames)]:
        st.write(n, tape.draw(st.ndirs))
    with_bcc = tape.draw(3, "m") == 2  # an (in-memory) bytecode cache must not change what the template cache serves
    with_child = kind in ("dict", "func-triple", "func-str", "fs") and tape.draw(4, "m") == 3
    if with_child:
        st.child_includes = tape.draw(2, "m") == 1
        if st.child_includes:
            st.write(HELPER)
        st.write(CHILD)
    env0 = jinja2.Environment(loader=st.make_loader(), auto_reload=auto_reload, cache_size=size,
                              bytecode_cache=_mem_bytecode_cache() if with_bcc else None)
    two_envs = tape.draw(3) == 2  # a second environment (overlay) sharing the loader object, with its own cache
    envs = [env0, env0.overlay()] if two_envs else [env0]
    models = [Model(size, auto_reload, kind) for _ in envs]
    aliases = kind in ("fs", "fs2") and tape.draw(3) == 2  # './a' names: same file, different cache slot
    req_names = list(names) + (["./" + n for n in names] if aliases else [])
    if kind == "prefix":
        req_names = ["p/" + n for n in names]
    old_loaders = []
    ops_dec = []
    nontrivial = False
    seen_current: set = set()  # (env, name) pairs looked up since the name last changed
    pending: set = set()  # (env, name) pairs that were looked up before and whose source changed since
    fault_op = tape.draw(nops, "f") if faulty else -1
    fault_kind = ("open", "getmtime")[tape.draw(2, "f")] if faulty else None
    if faulty and kind == "func-triple":
        fault_kind = "outage"
    fired_faults = 0
    gc_was = gc.isenabled()
    gc.disable()
    try:
        for i in range(nops):
            k = tape.weighted([6, 2, 4, 2, 1, 1, 3, 1, 1, 1, 1 if kind in ("dict", "prefix") else 0, 1])
            if k in (0, 1):
                ei = tape.draw(len(envs)) if len(envs) > 1 else 0
                env, model = envs[ei], models[ei]
                if k == 0:
                    target = tape.pick(req_names + ([CHILD, CHILD] if with_child else []))
                    tnames = [target]
                    arg = target
                else:
                    tnames = [tape.pick(req_names) for _ in range(1 + tape.draw(3))]
                    arg = tnames
                fault = fault_kind if i == fault_op else None
                if fault == "outage":
                    st.outage = True
                    armed = {"kind": fault, "done": False}
                    orig_event = fs.event
                    hits0 = st.outage_hits
                elif fault:
                    # arm: the next open-r / getmtime event of this operation raises EIO
                    armed = {"kind": fault, "done": False}
                    orig_event = fs.event

                    def ev(op, path="", size=0, _a=armed, _o=orig_event):
                        r = _o(op, path, size)
                        if not _a["done"] and ((_a["kind"] == "open" and op == "open-r") or (_a["kind"] == "getmtime" and op == "getmtime")):
                            _a["done"] = True
                            return ("error", 5)
                        return r

                    fs.event = ev
                # model: select tries names in order
                expected = None
                resolver = None
                hit_name = None
                mfault = {"kind": fault}
                for n in tnames:
                    acc, res = model.lookup(st, n, mfault)
                    if n == CHILD and acc not in ({"oserror"}, {"notfound"}):
                        # rendering the child loads its parent through the same cache: what the render shows is
                        # whatever a lookup of 'a' serves now (the child's own cached object must not pin an old parent)
                        if st.child_includes:
                            acc, res = model.lookup(st, HELPER, mfault)
                        if acc not in ({"oserror"}, {"notfound"}):
                            acc, res = model.lookup(st, "a", mfault)
                        n = "a"
                    if acc == {"oserror"}:
                        expected = acc
                        break
                    if acc != {"notfound"}:
                        expected, resolver = acc, res
                        hit_name = n
                        break
                if expected is None:
                    expected = {"notfound"}
                obs, extra = _observe(env, arg, fs)
                if fault == "outage":
                    st.outage = False
                    armed["done"] = st.outage_hits > hits0
                if fault:
                    fs.event = orig_event
                    if armed["done"]:
                        fired_faults += 1
                    elif expected == {"oserror"}:
                        expected = None  # should not happen: model thought a load was needed
                ops_dec.append([f"env{ei}", "get" if k == 0 else "select", tnames, "->", obs if not isinstance(obs, tuple) else str(obs),
                                ("fault:" + fault) if fault else ""])
                if obs == "oserror" and not (fault and extra is fs.last_injected_error):
                    out.violate(("unexpected-oserror", kind), op=i, ops=ops_dec)
                    break
                if expected is None or obs not in expected:
                    what = "stale" if isinstance(obs, int) and expected and all(isinstance(e, int) and e > obs for e in expected) else \
                           "too-new" if isinstance(obs, int) and expected and all(isinstance(e, int) and e < obs for e in expected) else \
                           "wrong"
                    out.violate((what, kind, "auto_reload" if auto_reload else "no_reload", f"size{size}",
                                 "after-fault" if (faulty and i > fault_op) else ("in-fault-op" if fault else "fault-free")),
                                op=i, observed=obs, expected=sorted(map(str, expected or [])), ops=ops_dec)
                    break
                if isinstance(obs, int) and extra != canon(hit_name or "") and k == 1:
                    out.violate(("select-wrong-name", kind), op=i, ops=ops_dec)
                    break
                if resolver:
                    resolver(obs)
                for n in tnames:
                    if (ei, canon(n)) in pending:
                        nontrivial = True  # looked up again after its source changed
                        pending.discard((ei, canon(n)))
                    seen_current.add((ei, canon(n)))
            elif k == 2:
                n = tape.pick(names)
                st.write(n, tape.draw(st.ndirs))
                pending |= {x for x in seen_current if x[1] == n}
                seen_current = {x for x in seen_current if x[1] != n}
                ops_dec.append(["modify", n, f"v{st.cur[n]}"])
            elif k == 3:
                n = tape.pick(names)
                st.delete(n, tape.draw(st.ndirs))
                pending |= {x for x in seen_current if x[1] == n}
                seen_current = {x for x in seen_current if x[1] != n}
                ops_dec.append(["delete", n])
            elif k == 4:
                n = tape.pick(names)
                if n not in st.cur:
                    st.write(n, tape.draw(st.ndirs))
                    pending |= {x for x in seen_current if x[1] == n}
                    seen_current = {x for x in seen_current if x[1] != n}
                ops_dec.append(["add", n])
            elif k == 5:
                keep = bool(tape.draw(2))
                if keep:
                    old_loaders.append(env0.loader)
                st.swap()
                new_loader = st.make_loader()
                for e_ in envs:
                    e_.loader = new_loader
                pending |= seen_current
                seen_current = set()
                ops_dec.append(["swap_loader", "old kept alive" if keep else "old dropped"])
            elif k == 6:
                d = (0.0, 1.0, 5.0, -1.0, -3600.0, 86400.0)[tape.draw(6)]
                clock.advance(d)
                ops_dec.append(["tick", d])
            elif k == 7:
                old_loaders.clear()
                gc.collect()
                ops_dec.append(["gc"])
            elif k == 8:
                # a new overlay of the (already used) first environment replaces / becomes the second environment;
                # for file-system loaders it may get a loader OBJECT of its own over the same directories (creating
                # it must leave the first environment's cache alone)
                ov = env0.overlay(loader=st.make_loader()) if (st.is_fs and tape.draw(2, "m") == 1) else env0.overlay()
                if len(envs) > 1:
                    envs[1], models[1] = ov, Model(size, env0.auto_reload, kind)  # an overlay copies the CURRENT setting
                else:
                    envs.append(ov)
                    models.append(Model(size, env0.auto_reload, kind))
                seen_current = {x for x in seen_current if x[0] != 1}
                pending = {x for x in pending if x[0] != 1}
                ops_dec.append(["new_overlay"])
            elif k == 11:
                # auto_reload is a public attribute that applications switch at run time (templates loaded while it
                # was off carry an up-to-date callback all the same and are checked once it is on)
                ei = tape.draw(len(envs)) if len(envs) > 1 else 0
                envs[ei].auto_reload = not envs[ei].auto_reload
                models[ei].auto_reload = envs[ei].auto_reload
                ops_dec.append([f"env{ei}", "auto_reload=" + str(envs[ei].auto_reload)])
            elif k == 10:
                # the loader keeps its identity (and so its cache entries) but its public ``mapping`` attribute is
                # REPLACED by another dict: other content for some names, one name possibly gone
                st.rebind(drop=tape.pick(names) if tape.draw(3) == 0 else None)
                target = envs[0].loader if kind == "dict" else envs[0].loader.mapping["p"]
                target.mapping = st.mapping
                pending |= seen_current
                seen_current = set()
                ops_dec.append(["rebind_mapping"])
            else:
                ei = tape.draw(len(envs)) if len(envs) > 1 else 0
                if envs[ei].cache is not None:
                    envs[ei].cache.clear()
                    models[ei].lru.clear()
                ops_dec.append([f"env{ei}", "cache.clear"])
            if size > 0 and any(len(e_.cache) > size for e_ in envs):
                out.violate(("over-capacity", f"size{size}"), op=i, ops=ops_dec)
                break
    finally:
        if gc_was:
            gc.enable()
    out.sim_time = clock.covered
    out.count("histories")
    out.count("loader_" + kind)
    out.count("evictions_predicted", sum(m.evictions for m in models))
    out.count("histories_two_environments", 1 if two_envs else 0)
    out.count("histories_alias_names", 1 if aliases else 0)
    out.count("faults_fired_" + str(fault_kind), fired_faults)
    out.count("histories_with_fault", 1 if faulty else 0)
    out.count("runs_with_bytecode_cache", 1 if with_bcc else 0)
    out.count("histories_with_inheriting_child", 1 if with_child else 0)
    out.decoded = {"loader": kind, "auto_reload": auto_reload, "cache_size": size, "names": names, "environments": len(envs),
                   "alias_names": aliases, "bytecode_cache": with_bcc, "ops": ops_dec,
                   "fault": {"op": fault_op, "kind": fault_kind} if faulty else None}
    out.trace = digest(ops_dec)
    if out.sig is None and (nontrivial or any(m.evictions for m in models) or fired_faults):
        out.case = digest([kind, auto_reload, size, with_bcc, ops_dec])
    return out

from sim.core import guarded as _guarded  # noqa: E402

run = _guarded(run)
