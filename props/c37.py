"""C37 - concurrent async renders do not interfere.

One run: 2-4 asyncio tasks render templates of one generated set on ONE async
environment (shared loader, template cache of drawn size, shared import
modules / macros / includes) under the virtual-time SimLoop.  Every choice
among ready handles and every gate delay comes from the tape.  Optional peer
faults (swarm): a peer task is cancelled at its k-th step, or a peer's data
raises at its k-th event; the surviving tasks must be unaffected.

Oracle: each unfaulted task's result equals its isolated reference: the same
template and data rendered alone on a fresh environment and a FIFO loop.
"""
from __future__ import annotations

import asyncio
import contextvars
import gc

from sim import aioloop as A
from sim.adata import Events, PrivateFault, make_async_data
from sim.aioloop import GATE_DELAYS
from sim.envs import clear_process_caches
from sim.core import native_text, unescaped, Outcome, digest, exc_key, scrub
from sim.envs import AE_MODES, CodeMemo
from sim.tape import Tape
from sim.workload import Gen

ID = "C37"
LEVEL = "exploration"
RULE = (
    "seeded runs: 2-4 render tasks (render_async / generate_async, own data each) of one generated async template set on one "
    "environment (template cache size 0/1/2/400, shared imported modules with and without context, environment-global "
    "awaitables called while a module is being built, macros, includes, namespaces, loop state); data awaitables and async "
    "iterables suspend through gates with virtual delays 0..3600 s; every ready-queue choice comes from the seed; swarm faults: "
    "a peer cancelled at its k-th step or a peer's k-th data event raising. Each surviving task is compared with its isolated "
    "reference. Non-trivial = at least two render tasks alternate (A..B..A) in the executed task trace; distinct = digest "
    "(program, entries, data seeds, task trace)."
    ' Environment classes Environment / NativeEnvironment / SandboxedEnvironment; generate_async consumers may suspend between chunks; programs tagged module_state / module_eval_ctx are classified as KF-C29-1 / KF-C37-1 only if a fresh environment per task removes the mismatch. One run in five loads the i18n extension with newstyle callables whose catalog depends on the locale of the task (a ContextVar; task i runs in locale i mod 3, its reference too), has a partial that fails to compile inside a trimmed trans block as one more entry point, and uses no code memo; a trans block inside a template included without context is cached-module state (tag module_i18n, classified like module_state).'
)
ASSUMPTIONS = [
    "the isolated reference is the same jinja code rendering alone on a fresh environment (differential oracle)",
    "SimLoop runs real asyncio Tasks; only ready-queue order, timers and the clock are simulated",
    "programs tagged 'module_state' (deliberately mutate an object exported by a module imported without context) are classified as known finding KF-C29-1 only if a fresh environment per task removes the mismatch",
]
REAL_STUB = {
    "real": ["jinja2 environment/template cache/loader/runtime/compiled templates", "asyncio.Task/Future/timers"],
    "stub": ["event loop scheduling + clock (SimLoop)", "data awaitables / async iterables (gated)"],
}
BUDGET = {"quick": 45, "thorough": 600}
CACHE_SIZES = (400, 0, 1, 2)

_setup_done = False


def setup() -> None:
    global _setup_done
    if _setup_done:
        return
    import sim

    sim.use_repo()
    import jinja2.debug  # noqa: F401
    import jinja2.ext  # noqa: F401

    A.install_policy()
    _setup_done = True


I18N = [False]  # jinja2.ext.i18n, newstyle callables whose catalog depends on the TASK's locale (a ContextVar, as Babel integrations do)
LOCALE = contextvars.ContextVar("sim_locale", default=0)
_WORDS = (("TEXT", "Ding"), ("Texte", "chose"), ("testo", "cosa"))


def _tr(s):
    w = _WORDS[LOCALE.get() % 3]
    return s.replace("text", w[0]).replace("thing", w[1])


ENVCLS = [0]  # 0 Environment, 1 NativeEnvironment, 2 SandboxedEnvironment (set per run)


def _make_env(P, ae: int, lc: bool, cache_size: int, tape: Tape):
    import jinja2
    from jinja2.nativetypes import NativeEnvironment
    from jinja2.sandbox import SandboxedEnvironment

    env = (jinja2.Environment, NativeEnvironment, SandboxedEnvironment)[ENVCLS[0]](
        loader=jinja2.DictLoader(P.templates), enable_async=True, autoescape=AE_MODES[ae], cache_size=cache_size,
        extensions=(["jinja2.ext.loopcontrols"] if lc else []) + (["jinja2.ext.i18n"] if I18N[0] else []),
        # (no code memo with the i18n extension: what one compilation leaves behind in the extension must be able to
        # show in the next one, and the reference must compile for itself)
        bytecode_cache=None if I18N[0] else CodeMemo(("c37", ae, lc, ENVCLS[0])),
    )
    if I18N[0]:
        env.install_gettext_callables(_tr, lambda s_, p_, n_: _tr(s_ if n_ == 1 else p_), newstyle=True)

    async def gf(x=0):
        await asyncio.sleep(GATE_DELAYS[tape.draw(len(GATE_DELAYS), "g")])
        try:
            return int(x) + 2
        except Exception:
            return 2

    @jinja2.pass_context
    async def gcx(ctx, name):
        # reads a variable of the calling frame back AFTER suspending
        await asyncio.sleep(GATE_DELAYS[tape.draw(len(GATE_DELAYS), "g")])
        return ctx.resolve(name)

    from sim.workload import StrObj

    env.globals["gcx"] = gcx
    env.globals["gso"] = StrObj("G!")
    env.globals["gf"] = gf
    env.globals["gn"] = 3
    env.globals["gd"] = {"k1": 1, "k2": [2]}
    return env


TG: dict = {}


EXTRA_GLOBAL = [False]  # some tasks pass one more template-level global, a name no template reads (set per run)


async def _render(env, entry: str, api: int, data: dict, fault_exc, gate_tape=None, extra=None, loc=0):
    LOCALE.set(loc)  # this task's locale (each task runs in its own copy of the context)
    try:
        g_ = {"tg": TG[entry]} if entry in TG else None
        if extra is not None:
            # documented: globals of an already cached template are extended by new items - also while other
            # renders of that template are in flight; the name is never read, so nobody's output may change
            g_ = dict(g_ or {}, zz_unused=extra)
        tmpl = env.get_template(entry, globals=g_)
        if api == 0:
            r_ = await tmpl.render_async(**data)
            return ("ok", scrub(native_text(r_)))
        chunks = []
        async for c in tmpl.generate_async(**data):
            chunks.append(c)
            if gate_tape is not None and gate_tape.draw(3, "g") == 2:
                # a slow consumer: the render stays suspended at a yield while other tasks run
                await A.gate(gate_tape)
        return ("ok", scrub("".join(map(str, chunks))))
    except asyncio.CancelledError:
        raise
    except BaseException as e:  # noqa: BLE001
        if e is fault_exc:
            return ("fault",)
        return ("raised", exc_key(e))


def _reference(P, ae, lc, cache_size, entry, api, data_seed, globals_mode=False, extra=None, loc=0):
    """The task alone: fresh environment of the same configuration, fresh FIFO loop, same data."""
    zero = Tape(streams={})
    env = _make_env(P, ae, lc, cache_size, zero)
    loop = A.SimLoop(zero)
    data = make_async_data(zero, Events(), seed=data_seed)
    if globals_mode:
        env.globals.update(data)
        data = {}
    try:
        # (the same template-level globals as in the run: an importer that has globals its imported template lacks gets
        # an UNCACHED module per import - documented - so the extra name is part of the task, not noise)
        r, e = A.run_loop(loop, _render(env, entry, api, data, None, extra=extra, loc=loc))
        if e is not None:
            raise e
        return r
    finally:
        A.close_loop(loop)


def _concurrent(tape, P, ae, lc, cache_size, specs, fault, fresh_env_per_task=False, globals_mode=False):
    shared_env = None if fresh_env_per_task else _make_env(P, ae, lc, cache_size, tape)
    loop = A.SimLoop(tape)
    fault_exc = PrivateFault("peer fault")
    fkind, ftask, fk = fault
    tasks = []
    info = {"fired": False}

    async def main():
        for i, (entry, api, dseed) in enumerate(specs):
            ev = Events(fault_at=fk if (fkind == 2 and i == ftask) else 0, exc=fault_exc)
            data = make_async_data(tape, ev, seed=dseed)
            env = shared_env if shared_env is not None else _make_env(P, ae, lc, cache_size, tape)
            if globals_mode:
                # the data lives in the environment globals (one data set for all tasks); renders get no variables
                if i == 0 or shared_env is None:
                    env.globals.update(data)
                data = {}
            t = loop.create_task(_render(env, entry, api, data, fault_exc, tape, extra=i if (EXTRA_GLOBAL[0] and i % 2 == 1) else None,
                                         loc=i % 3 if I18N[0] else 0), name=f"r{i}")
            tasks.append((t, ev))
        if fkind == 1:
            victim = tasks[ftask][0]

            def on_step(owner: str, n: int) -> None:
                if owner == f"r{ftask}" and n == fk and not victim.done():
                    info["fired"] = True
                    victim.cancel()

            loop.on_step = on_step
        res = await asyncio.gather(*[t for t, _ in tasks], return_exceptions=True)
        loop.on_step = None
        out = []
        for r in res:
            if isinstance(r, asyncio.CancelledError):
                out.append(("cancelled",))
            elif isinstance(r, BaseException):
                out.append(("raised-out", exc_key(r)))
            else:
                out.append(r)
        return out

    try:
        r, e = A.run_loop(loop, main())
        if e is not None:
            raise e
    finally:
        A.close_loop(loop)
    if fkind == 2 and tasks[ftask][1].fired:
        info["fired"] = True
    return r, loop, info


def run(tape: Tape) -> Outcome:
    setup()
    clear_process_caches()  # a run must not depend on the runs before it in this worker
    out = Outcome()
    ae = tape.draw(3)  # autoescape: off, on, by template name (callable)
    lc = bool(tape.draw(2))
    cache_size = CACHE_SIZES[tape.draw(len(CACHE_SIZES))]
    tagged_ok = tape.draw(8) == 7
    size = 2 + tape.draw(4)
    ENVCLS[0] = (0, 0, 0, 0, 0, 1, 2, 2)[tape.draw(8, "m")]
    EXTRA_GLOBAL[0] = tape.draw(3, "m") == 2
    out.count("env_class_" + ("Environment", "NativeEnvironment", "SandboxedEnvironment")[ENVCLS[0]])
    if tape.draw(4, "m") == 3:
        # micro programs (one filter / global / module macro used two ways by two tiny templates): with so few await
        # points the seeded ready-queue choices cover their interleavings quickly
        from sim import workload as W_

        if ENVCLS[0] == 1:
            ENVCLS[0] = 0
        P = W_.micro_program(tape)
        out.count("micro_program_runs")
        I18N[0] = False
    else:
        # one run in five: the i18n extension with newstyle callables whose catalog depends on the task's locale
        I18N[0] = tape.draw(5, "m") == 4
        out.count("runs_with_locale_dependent_gettext", 1 if I18N[0] else 0)
        P = Gen(tape, is_async=True, loopcontrols=lc, size=size, allow_module_state=tagged_ok, env_globals=True,
                template_globals=True, native=ENVCLS[0] == 1, pair_den=8, i18n=I18N[0]).generate()
        if I18N[0]:
            # a partial that does not compile (an expression inside a trimmed trans block): whoever asks for it gets the
            # syntax error - alone or among others - and nobody else is affected by the failed compilation
            P.templates["broken"] = "{% trans trimmed %}\n  Dear {{ o1.a }},\n  some text\n{% endtrans %}"
            P.entry_points.append("broken")
    # template-level globals, fixed per template name (documented use); 'main' and 'base' are never
    # included or imported by others, so the documented "cached template keeps its globals" cannot interfere
    tg = {}
    if tape.draw(2):
        tg["main"] = 1 + tape.draw(3)
    if tape.draw(2):
        tg["base"] = 11 + tape.draw(3)
    nt = 2 + tape.draw(3)
    globals_mode = tape.draw(4) == 3
    specs = []
    for _ in range(nt):
        entry = P.entry_points[tape.draw(len(P.entry_points))]
        api = tape.draw(2)
        dseed = tape.draw(1 << 30, "d")
        if globals_mode and specs:
            dseed = specs[0][2]
        specs.append((entry, api, dseed))
    fkind = tape.draw(3, "f")  # 0 none, 1 cancel peer at step k, 2 peer data raises at event k
    if globals_mode and fkind == 2:
        fkind = 0  # the data (and its event counter) is shared in globals mode: no per-task data fault
    ftask = tape.draw(nt, "f") if fkind else 0
    fk = 1 + tape.draw(16, "f") if fkind else 0
    fault = (fkind, ftask, fk)

    TG.clear()
    TG.update({k: v for k, v in tg.items() if k in P.templates})
    gc_was = gc.isenabled()
    gc.disable()
    try:
        try:
            results, loop, info = _concurrent(tape, P, ae, lc, cache_size, specs, fault, globals_mode=globals_mode)
        except A.SimStall as e:
            out.violate(("stall",), stall=str(e), templates=P.templates, specs=specs)
            return out
        refs = [_reference(P, ae, lc, cache_size, entry, api, dseed, globals_mode,
                           extra=i_ if (EXTRA_GLOBAL[0] and i_ % 2 == 1) else None, loc=i_ % 3 if I18N[0] else 0)
                for i_, (entry, api, dseed) in enumerate(specs)]
        mism = []
        for i, (got, ref) in enumerate(zip(results, refs)):
            if fkind and i == ftask and got in (("cancelled",), ("fault",)):
                continue  # the faulted peer itself
            if got != ref:
                mism.append(i)
        trace = loop.trace
        render_trace = [x for x in trace if x.startswith("r")]
        runs_ = [x for j, x in enumerate(render_trace) if j == 0 or render_trace[j - 1] != x]
        alternations = len(runs_) - len(set(runs_))
        out.sim_time = loop.time()
        out.count("runs")
        out.count("loop_steps", loop.steps)
        out.count("schedule_choices", loop.choices)
        out.count("runs_with_alternation", 1 if alternations else 0)
        out.count(["fault_none", "fault_cancel_peer", "fault_peer_data_raises"][fkind])
        if info["fired"]:
            out.count(["", "fault_fired_cancel_peer", "fault_fired_peer_data_raises"][fkind])
        if "module_state" in P.tags:
            out.count("tagged_module_state_programs")
        if P.features.get("env_global_use"):
            out.count("prog_with_env_global_awaitable_in_module")
        for f in ("import_as", "from_import", "import_with_context", "include", "extends", "namespace", "loop_attr"):
            if P.features.get(f):
                out.count("prog_with_" + f)
        out.count("cache_size_%d" % cache_size)
        out.count("runs_data_in_environment_globals", 1 if globals_mode else 0)
        out.trace = digest([trace, results])
        out.decoded = {
            "templates": P.templates, "tags": sorted(P.tags), "template_globals": dict(tg), "autoescape": ae, "loopcontrols": lc, "cache_size": cache_size, "data_in_environment_globals": globals_mode,
            "tasks": [{"task": f"r{i}", "entry": e, "api": ["render_async", "generate_async"][a], "data_seed": d}
                      for i, (e, a, d) in enumerate(specs)],
            "fault": {"kind": ["none", "cancel-peer", "peer-data-raises"][fkind], "task": f"r{ftask}", "k": fk, "fired": info["fired"]},
            "task_trace": trace[:120], "results": results, "references": refs, "simulated_seconds": out.sim_time,
        }
        if mism:
            i = mism[0]
            sig = ("interference", "faulted-run" if info["fired"] else "fault-free", results[i][0], refs[i][0])
            if "module_state" in P.tags or ("module_i18n" in P.tags and I18N[0]):
                # structured classifier for KF-C29-1: state retained by the environment's cached
                # templates/modules; a fresh Environment per task must remove the mismatch
                r2, _l2, _i2 = _concurrent(Tape(streams=tape.used()), P, ae, lc, cache_size, specs, fault, fresh_env_per_task=True, globals_mode=globals_mode)
                still = [j for j, (g, rf) in enumerate(zip(r2, refs))
                         if not (fkind and j == ftask and g in (("cancelled",), ("fault",))) and g != rf]
                if not still:
                    out.known = "KF-C29-1"
            if out.known is None and "module_eval_ctx" in P.tags and all(results[j][0] == "ok" and refs[j][0] == "ok" for j in mism):
                # structured classifier for KF-C37-1: the program runs an {% autoescape %} block inside a macro of a
                # module imported without context (generator tag), both sides rendered text, and a fresh Environment
                # per task (no shared module context) removes the mismatch.  (A first version also required the texts
                # to differ in escaping only; filter blocks applied AFTER the wrongly escaped text - replace, upper,
                # truncate - make that too narrow: '&amp;' becomes '&bmp;'.)
                out.count("kf_c37_1_only_escaping_differs", 1 if all(unescaped(results[j][1]) == unescaped(refs[j][1]) for j in mism) else 0)
                r2, _l2, _i2 = _concurrent(Tape(streams=tape.used()), P, ae, lc, cache_size, specs, fault, fresh_env_per_task=True, globals_mode=globals_mode)
                still = [j for j, (g, rf) in enumerate(zip(r2, refs))
                         if not (fkind and j == ftask and g in (("cancelled",), ("fault",))) and g != rf]
                if not still:
                    out.known = "KF-C37-1"
            out.violate(sig, task=f"r{i}", got=results[i], expected=refs[i])
            return out
        if alternations:
            out.case = digest([P.templates, specs, trace])
    finally:
        if gc_was:
            gc.enable()
    return out

from sim.core import guarded as _guarded  # noqa: E402

run = _guarded(run)
