"""C36 - async rendering always closes the generators it opens.

One run = one generated template set rendered in an async environment under
the virtual-time SimLoop, with one fault from the ``f`` stream:

  f[0] mode   0 clean | 1 consumer closes generate_async after k chunks |
              2 render task cancelled after its k-th loop step |
              3 k-th data event raises | 4 sync API (asyncio.run inside jinja, SimLoop via policy) |
              5 sync API + k-th data event raises
  f[1] api    0 render_async / render()   1 generate_async / generate()
  f[2] k
  f[3] exception kind (0 Exception subclass, 1 BaseException subclass)
  f[4] mode cancel only: a second cancellation j steps after the first (0 = none)

A work unit takes one workload, runs it clean to measure chunks C, steps S and
data events E, then enumerates the fault positions (all of them in the thorough
tier, a sample in the quick tier).

Oracle: when the render's task finishes (checked in the task's own ``finally``)
no async generator compiled from template code is still unfinished; none is
ever handed to the GC finalizer hook; no "never awaited"/unraisable/loop
exception report is produced.
"""
from __future__ import annotations

import asyncio
import gc
import random
import sys
import warnings

from sim import aioloop as A
from sim.adata import Events, PrivateAbort, PrivateFault, make_async_data
from sim.envs import clear_process_caches
from sim.core import Outcome, digest, exc_key
from sim.envs import AE_MODES, CodeMemo
from sim.tape import Tape, run_seed
from sim.workload import Gen

ID = "C36"
LEVEL = "fault_enumeration"
RULE = (
    "work unit = one generated async template set (blocks, scoped blocks in loops, extends/super/self.b(), includes, "
    "imports, macros/call blocks, loop filters incl. recursive loops and break/continue, awaits at every nesting level "
    "through simulator gates) x fault positions measured on its clean run: consumer aclose() after k of C chunks, "
    "cancellation after the k-th of S loop steps of the render task (other tasks running, interleaving from the tape), "
    "k-th of E data events raising (Exception and BaseException), and the same through the sync API; thorough = every k, "
    "quick = a seeded sample per workload. Non-trivial = the fault actually fired while at least one template async "
    "generator had been started; distinct = digest(program, entry, mode, api, k, task trace)."
    ' Environment classes Environment / NativeEnvironment / SandboxedEnvironment; environment globals (awaitable callable, pass_context callable, object with a counting __str__); mode sync-api-early-close (a sync consumer stops after k chunks); one run in three has a peer render task of the same template; engine-owned async generators (jinja2 modules other than filters.py) are asserted like template generators. Half the runs append a custom async test (applied to a constant and to data through `is`) or map(attribute=<awaitable attribute>) to the entry template.'
)
ASSUMPTIONS = [
    "template async generators are recognised by co_filename '<template>' at CPython's asyncgen firstiter hook",
    "data async generators and jinja2.filters generators are outside the property's list: counted, not asserted",
    "SimLoop (asyncio.BaseEventLoop subclass) runs real asyncio Tasks; only scheduling order and the clock are simulated",
]
REAL_STUB = {
    "real": ["jinja2 compiler/runtime/environment (async code paths)", "asyncio.Task/Future/timers", "CPython asyncgen hooks"],
    "stub": ["event loop scheduling + clock (SimLoop)", "data callables / async iterables (gated, event-counting)"],
}
BUDGET = {"quick": 35, "thorough": 600}
MODES = ["clean", "early-aclose", "cancel", "data-raises", "sync-api", "sync-api-data-raises", "sync-api-early-close"]

_setup_done = False


def setup() -> None:
    global _setup_done
    if _setup_done:
        return
    import sim

    sim.use_repo()
    import jinja2.debug  # noqa: F401  lazily imported by jinja on first error
    import jinja2.ext  # noqa: F401

    A.install_policy()
    _setup_done = True


def _kind(co_name: str) -> str:
    if co_name.startswith("peer:"):
        co_name = co_name[5:]
    if co_name.startswith("engine:"):
        return "engine"
    if co_name == "root":
        return "root"
    if co_name.startswith("block_"):
        return "block"
    if co_name.startswith("t_"):
        return "loopfilter"
    return "other"


def run(tape: Tape) -> Outcome:
    setup()
    clear_process_caches()  # a run must not depend on the runs before it in this worker
    import jinja2

    out = Outcome()
    ae = tape.draw(3)
    lc = bool(tape.draw(2))
    noise = tape.draw(3)
    size = 2 + tape.draw(4)
    envcls = (0, 0, 0, 0, 0, 1, 1, 2)[tape.draw(8, "m")]
    out.count("env_class_" + ("Environment", "NativeEnvironment", "SandboxedEnvironment")[envcls])
    P = Gen(tape, is_async=True, loopcontrols=lc, size=size, native=envcls == 1, env_globals=True).generate()
    entry = P.entry_points[tape.draw(len(P.entry_points))]
    mode = tape.draw(len(MODES), "f")
    api = tape.draw(2, "f")
    k = tape.draw(4096, "f")
    exck = tape.draw(2, "f")
    again = tape.draw(5, "f")  # mode cancel: a second cancellation `again` steps after the first (0 = none)

    fault_exc = None
    if mode in (3, 5):
        fault_exc = PrivateFault("injected") if exck == 0 else PrivateAbort("injected")
    events = Events(fault_at=k if fault_exc is not None else 0, exc=fault_exc)
    data = make_async_data(tape, events)
    peer = tape.draw(3, "m") == 2 and mode in (0, 1, 2, 3)
    peer_data = make_async_data(tape, Events(), gate_stream="g2", data_stream="d2") if peer else None
    out.count("runs_with_peer_render", 1 if peer else 0)
    # (one run in two) a custom ASYNC test applied to a constant and to data, and map(attribute=<awaitable attribute>)
    xt = tape.draw(4, "m")
    if xt >= 2:
        P.templates[entry] += "{% if 3 is aodd %}o{% else %}e{% endif %}{{ n1 is aodd }}" if xt == 2 else \
            "{{ alo|map(attribute='ap')|join(',') }}{% if 4 is aodd %}o{% endif %}"
        out.count("runs_with_async_test_or_awaitable_attribute")
    cfg_key = ("c36", ae, lc, envcls)
    from jinja2.nativetypes import NativeEnvironment
    from jinja2.sandbox import SandboxedEnvironment

    env = (jinja2.Environment, NativeEnvironment, SandboxedEnvironment)[envcls](
        loader=jinja2.DictLoader(P.templates), enable_async=True, autoescape=AE_MODES[ae],
        extensions=["jinja2.ext.loopcontrols"] if lc else [], bytecode_cache=CodeMemo(cfg_key),
    )

    async def gf(x=0):
        events.ev("gcall")
        await A.gate(tape)
        try:
            return int(x) + 2
        except Exception:
            return 2

    @jinja2.pass_context
    async def gcx(ctx, name):
        events.ev("gcall")
        await A.gate(tape)
        return ctx.resolve(name)

    class GStr:
        def __str__(self) -> str:
            events.ev("str")
            return "G!"

        def __repr__(self) -> str:
            return "GStr()"

    env.globals.update(gf=gf, gcx=gcx, gso=GStr(), gn=3, gd={"k1": 1, "k2": [2]})

    async def aodd(v):
        events.ev("acall")
        await A.gate(tape)
        try:
            return int(v) % 2 == 1
        except Exception:
            return False

    env.tests["aodd"] = aodd

    policy = A.install_policy()
    policy.created.clear()
    loops: list[A.SimLoop] = []

    def new_loop() -> A.SimLoop:
        lp = A.SimLoop(tape)
        loops.append(lp)
        return lp

    policy.factory = new_loop
    info: dict = {"open_at_finish": None, "chunks": 0, "cancel_sent": False, "closed_early": False}
    unraisable: list[str] = []
    old_unraisable = sys.unraisablehook
    sys.unraisablehook = lambda u: unraisable.append(f"{type(u.exc_value).__name__}: {u.err_msg}")
    gc_was = gc.isenabled()
    gc.disable()
    res: tuple = ("none",)
    stall = None
    try:
        with warnings.catch_warnings(record=True) as wlist:
            warnings.simplefilter("always")
            if mode in (4, 5, 6):
                # sync API of an async environment: jinja calls asyncio.run itself
                try:
                    tmpl = env.get_template(entry)
                    if mode == 6:
                        # the consumer of the SYNC generator stops after k chunks and closes it
                        it = tmpl.generate(**data) if api == 0 else iter(tmpl.stream(**data))
                        got = []
                        try:
                            for c in it:
                                if len(got) >= k:
                                    info["closed_early"] = True
                                    break
                                got.append(str(c))
                                info["chunks"] = len(got)
                        finally:
                            close = getattr(it, "close", None)
                            if close is not None:
                                close()
                        it = None
                        res = ("ok", "".join(got))
                    elif api == 0:
                        res = ("ok", tmpl.render(**data))
                    else:
                        res = ("ok", "".join(map(str, tmpl.generate(**data))))
                except A.SimStall as e:
                    stall = str(e)
                except BaseException as e:  # noqa: BLE001
                    res = ("raised", e)
            else:
                loop = new_loop()

                async def noise_task(i: int) -> None:
                    for _ in range(3 + 2 * i):
                        await A.gate(tape)

                async def render_wrapper():
                    try:
                        tmpl = env.get_template(entry)
                        if api == 0:
                            return await tmpl.render_async(**data)
                        agen = tmpl.generate_async(**data)
                        chunks = []
                        try:
                            if not (mode == 1 and k == 0):
                                async for c in agen:
                                    chunks.append(c)
                                    info["chunks"] = len(chunks)
                                    if mode == 1 and len(chunks) >= k:
                                        info["closed_early"] = True
                                        break
                            else:
                                info["closed_early"] = True
                        finally:
                            await agen.aclose()
                        return "".join(map(str, chunks))
                    finally:
                        info["open_at_finish"] = loop.open_template_generators("render")

                async def peer_wrapper():
                    # a second render of the same template on the same environment (shared template / module caches),
                    # complete and unfaulted; it must close its own generators too
                    try:
                        tmpl = env.get_template(entry)
                        return await tmpl.render_async(**peer_data)
                    except asyncio.CancelledError:
                        raise
                    except BaseException as e:  # noqa: BLE001 - its outcome is not judged here
                        e.with_traceback(None)
                        return None
                    finally:
                        info["peer_open_at_finish"] = loop.open_template_generators("peer")

                async def main():
                    bg = [loop.create_task(noise_task(i), name=f"bg{i}") for i in range(noise)]
                    if peer:
                        bg.append(loop.create_task(peer_wrapper(), name="peer"))
                    rt = loop.create_task(render_wrapper(), name="render")
                    if mode == 2:
                        def on_step(owner: str, n: int) -> None:
                            if owner == "render" and n == k and not rt.done():
                                info["cancel_sent"] = True
                                rt.cancel()
                            elif owner == "render" and again and n == k + again and not rt.done():
                                # cancelled again while it is unwinding / closing its generators
                                info["cancel_again"] = True
                                rt.cancel()
                        loop.on_step = on_step
                    try:
                        r = ("ok", await rt)
                    except asyncio.CancelledError:
                        r = ("cancelled",)
                    except BaseException as e:  # noqa: BLE001
                        r = ("raised", e)
                    loop.on_step = None
                    for b in bg:
                        if b.get_name() == "peer" and not b.done():
                            try:
                                await asyncio.wait_for(asyncio.shield(b), timeout=1e7)  # virtual seconds
                            except BaseException:  # noqa: BLE001
                                pass
                    for b in bg:
                        b.cancel()
                    if bg:
                        await asyncio.gather(*bg, return_exceptions=True)
                    return r

                try:
                    r, e = A.run_loop(loop, main())
                    if e is not None:
                        raise e
                    res = r
                except A.SimStall as e:
                    stall = str(e)
                finally:
                    info["open_after_main"] = loop.open_template_generators()
                    try:
                        A.close_loop(loop)
                    except A.SimStall as e:
                        stall = stall or str(e)
            # drop references that keep frames (and generators) alive, then collect
            exc_obj = res[1] if res[0] == "raised" else None
            res_key = (res[0], exc_key(exc_obj)) if exc_obj is not None else res
            same_obj = exc_obj is fault_exc if (exc_obj is not None and fault_exc is not None) else None
            if exc_obj is not None:
                exc_obj.with_traceback(None)  # C-level: works for exception classes that forbid attribute assignment
            res = res_key
            exc_obj = None
            gc.collect()
        warn_msgs = [f"{w.category.__name__}: {str(w.message)[:80]}" for w in wlist
                     if issubclass(w.category, (RuntimeWarning, ResourceWarning))]
    finally:
        sys.unraisablehook = old_unraisable
        policy.factory = None
        if gc_was:
            gc.enable()

    started = sum(len(lp.agens) for lp in loops)
    fired = (
        (mode in (1, 6) and info["closed_early"]) or (mode == 2 and info["cancel_sent"])
        or (mode in (3, 5) and events.fired)
    )
    steps = sum(lp.steps for lp in loops)
    render_steps = sum(lp.task_steps.get("render", 0) for lp in loops)
    out.sim_time = sum(lp.time() for lp in loops)
    out.count("runs_" + MODES[mode])
    out.count("loop_steps", steps)
    out.count("template_asyncgens_started", started)
    out.count("other_asyncgens_started", sum(lp.agens_other for lp in loops))
    out.count("other_asyncgens_gc_finalized", sum(lp.finalized_other for lp in loops))
    out.count("schedule_choices", sum(lp.choices for lp in loops))
    if info.get("cancel_again"):
        out.count("fault_fired_second_cancellation_during_unwinding")
    if fired:
        out.count("fault_fired_" + MODES[mode])
        if mode in (3, 5):
            out.count("fault_event_kind_" + str(events.fired_kind))
    for f, n in P.features.items():
        if f in ("loop_filter", "extends", "include", "block_in_loop", "for_recursive", "loopcontrol", "super", "self_block", "for_async_gen", "call_block"):
            out.count("prog_with_" + f)
    trace = [tuple(lp.trace) for lp in loops]
    out.trace = digest([trace, res, info["chunks"], events.n, steps])
    out.decoded = {
        "templates": P.templates, "entry": entry, "autoescape": ae, "loopcontrols": lc, "noise_tasks": noise,
        "fault": {"mode": MODES[mode], "api": ["render_async", "generate_async"][api], "k": k,
                  "exc": ["Exception", "BaseException"][exck] if mode in (3, 5) else None, "fired": bool(fired),
                  "second_cancel_after": again if mode == 2 else None},
        "clean_stats": {"chunks": info["chunks"], "render_task_steps": render_steps, "data_events": events.n},
        "result": res, "simulated_seconds": out.sim_time,
        "task_trace": [list(t)[:60] for t in trace],
    }
    if stall:
        out.violate(("stall", MODES[mode]), stall=stall)
        return out
    open_fin = (info.get("open_at_finish") or []) + ["peer:" + n for n in (info.get("peer_open_at_finish") or [])]
    for lp in loops:
        if mode in (4, 5, 6):
            open_fin = open_fin + getattr(lp, "open_at_shutdown", []) + getattr(lp, "open_at_close", [])
            if not lp.is_closed():
                # a loop the engine created and never closed: nobody will ever close what is open in it
                open_fin = open_fin + lp.open_template_generators()
                try:
                    A.close_loop(lp)
                except Exception:
                    pass
    if open_fin:
        kinds = sorted({_kind(n) for n in open_fin})
        out.violate(("unclosed-at-task-finish", MODES[mode], *kinds), generators=open_fin)
        return out
    finalized = [n for lp in loops for n in lp.finalized]
    if finalized:
        kinds = sorted({_kind(n) for n in finalized})
        out.violate(("left-to-gc-finalizer", MODES[mode], *kinds), generators=finalized)
        return out
    reports = [r for lp in loops for r in lp.exc_reports]
    if reports:
        out.violate(("loop-exception-report", MODES[mode]), reports=reports[:3])
        return out
    if warn_msgs:
        out.violate(("warning", MODES[mode], warn_msgs[0].split(":")[0]), warnings=warn_msgs[:3])
        return out
    if unraisable:
        out.violate(("unraisable", MODES[mode]), messages=unraisable[:3])
        return out
    if same_obj is False and events.fired:
        # informational only (C38 decides propagation); not a C36 violation
        out.count("fault_came_out_as_other_exception")
    if fired and started:
        out.case = digest([P.templates, entry, mode, api, k, exck, trace])
    return out



from sim.core import guarded as _guarded  # noqa: E402

run = _guarded(run)


def unit(index: int, seed: int, tier: str):
    """One workload, clean runs first, then its fault positions."""
    base_seed = run_seed(seed, ID, index)
    rng = random.Random(base_seed ^ 0x5EED)
    workload = None
    stats = {}
    for api in (0, 1):
        tp = Tape(base_seed, preset={"f": [0, api, 0, 0]})
        o = run(tp)
        yield tp, o
        if o.sig is not None:
            return
        stats[api] = o.decoded["clean_stats"]
        workload = {"w": list(tp.streams.get("w", [])), "d": list(tp.streams.get("d", []))}
    plans: list[list[int]] = []
    for api in (0, 1):
        st = stats[api]
        if api == 1:
            plans += [[1, 1, k, 0] for k in range(0, st["chunks"] + 1)]
        plans += [[2, api, k, 0] for k in range(1, st["render_task_steps"] + 1)]
        # (a second cancellation while unwinding is drawn by random tapes only: templates have no awaiting clean-up,
        # a cancelled render finishes in its very next step, so enumerating (k, j) pairs found nothing to land on)
        for exck in (0, 1):
            plans += [[3, api, k, exck] for k in range(1, st["data_events"] + 1)]
        plans.append([4, api, 0, 0])
        plans += [[6, api, k, 0] for k in range(0, stats[1]["chunks"] + 1)]
        plans += [[5, api, k, exck] for exck in (0, 1) for k in range(1, st["data_events"] + 1)]
    limit = 40 if tier == "quick" else 2000
    total_positions = len(plans)
    if len(plans) > limit:
        plans = rng.sample(plans, limit)
    for j, f in enumerate(plans):
        # same workload and data; fresh schedule / gate streams per fault run
        tp = Tape(base_seed + 1 + j, preset={"w": workload["w"], "d": workload["d"], "f": f})
        o = run(tp)
        if j == 0:
            o.count("units_all_fault_positions_enumerated" if total_positions <= limit else "units_fault_positions_sampled")
            o.count("fault_positions_total", total_positions)
        yield tp, o
