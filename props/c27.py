"""C27 - the bytecode cache never yields stale code and tolerates interrupted writes.

System: 2-3 simulated *processes*, each owning a real Environment
(cache_size=0, so the template cache never masks the bytecode cache) with a real
FileSystemBytecodeCache on one SimFS directory, or a real
MemcachedBytecodeCache on one SimMemcache; a shared mutable source store.

History: 3-10 rounds.  A round is load(p, name) + render, two loads by
different processes interleaved at syscall events by the tape, modify(name),
clear(p), restart(p) or sync.

Fault plan (stream ``f``): up to two faults, each a triple (kind, a, b):
  1 crash the calling process before syscall event a        2 ... after event a
  3 power loss after event a: every process dies, every file written since the
    last sync keeps an arbitrary prefix (selector b), renames since the last
    sync persist or are undone
  4 event a fails with an OSError (variant b: ENOSPC+short write, EIO, EACCES, ENOENT)
  5 before round a the stored entry of that round's template is truncated at offset b
  6 before round a the entry is replaced (b: foreign interpreter magic, other
    cache version, garbage, empty, entry of an older source, valid marshal of
    ANOTHER template under the current checksum but foreign magic; 6-8: the header
    CPython 3.11 / 3.13 / 2.7 running the jinja code under test would write)
  7 memcached client event a misbehaves (b: raise, evict, truncated value, lost set)

A work unit runs its history clean, numbers every syscall event, then
enumerates the fault positions (all in the thorough tier, a sample in quick).

Oracle per load (strict): output == the same source compiled by an environment
of the same configuration with NO bytecode cache; a load never raises, except
the injected OSError / client error object itself in the one load during which
it was injected.
"""
from __future__ import annotations

import gc
import marshal
import pickle
import random

from sim import aioloop as A
from sim import simfs as F
from sim import threads as T
from sim.envs import clear_process_caches
from sim.core import Outcome, digest, exc_key, scrub
from sim.tape import Tape, run_seed

ID = "C27"
LEVEL = "fault_enumeration"
RULE = (
    "work unit = one seeded history (3-10 rounds of load+render / two interleaved loads by two processes / two threads of one process "
    "sharing one Environment and cache object with a source edit landing mid-load (source-line pre-emption in bccache.py and "
    "loaders.py) / modify / clear / restart / sync by 2-3 processes sharing one cache directory or one memcached; same "
    "configuration, one compile-relevant option differing, or only run-time options (undefined type, filter / test / global of "
    "the same name) differing - the last with no tolerance) x fault positions "
    "measured on its clean run: process crash before/after every syscall event of every load/dump/clear (temp-file creation, "
    "each write, close, replace, remove, listdir, open, read), power loss after every event with per-file prefix truncation and "
    "persisted/undone renames, every error kind at every event, every truncation offset of every stored entry, foreign-magic / "
    "other-version / garbage / empty / stale / foreign-code entries and headers as CPython 3.11 / 3.13 / 2.7 running the code under test "
    "would write them, memcached get/set raising, truncating, losing, evicting; "
    "thorough = all positions per history, quick = a seeded sample. Non-trivial = a fault fired and a later load was checked; "
    "distinct = digest(history, configs, fired faults, schedule)."
    ' Loaders: DictLoader / FunctionLoader with a fresh source string per load / ChoiceLoader with a shadowed copy of every name.'
)
ASSUMPTIONS = [
    "SimFS models POSIX semantics: rename atomicity, unlink keeps open files readable, no fsync => any prefix of an un-synced file may survive power loss",
    "a crash is process death: no further file-system call from that process succeeds (jinja's except-BaseException clean-up cannot run)",
    "the reference is the same source compiled by the same jinja code without a bytecode cache (differential)",
    "known finding KF-C27-1 (environment configuration is not part of cache key or checksum) is matched only when the load read an entry written by a differently configured process AND the observed behaviour equals executing the writer-configuration code in the reader environment",
]
REAL_STUB = {
    "real": ["jinja2.bccache (Bucket, FileSystemBytecodeCache, MemcachedBytecodeCache)", "BaseLoader.load integration", "compiler, marshal, pickle"],
    "stub": ["file system (SimFS behind jinja2.bccache.os/tempfile/open)", "memcached client (SimMemcache)", "process scheduler (baton passing at syscall events)"],
}
BUDGET = {"quick": 40, "thorough": 600}
CACHE_DIR = F.ROOT + "cache"
OPTIONS = ["autoescape", "trim_blocks", "lstrip_blocks", "enable_async", "sandboxed", "optimized", "keep_trailing_newline"]
OVERLAY_OPTIONS = ["autoescape", "trim_blocks", "lstrip_blocks", "optimized", "keep_trailing_newline"]
_setup_done = False
_REF: dict = {}


def setup() -> None:
    global _setup_done
    if _setup_done:
        return
    import sim

    sim.use_repo()
    import jinja2.debug  # noqa: F401
    import jinja2.sandbox  # noqa: F401

    F.install()
    A.install_policy().factory = lambda: A.SimLoop(Tape(streams={}))
    # threads of ONE process sharing one bytecode-cache object ("load2t" rounds) are pre-empted at source lines of
    # every function of bccache.py / loaders.py (second monitoring tool, on only inside those rounds)
    import jinja2.bccache as B
    import jinja2.loaders as L
    import jinja2.utils as U

    T.install_deep(T.module_functions(B) + T.module_functions(L))
    U.Lock = T.SimLock
    T.neutralise_real_locks()
    T.install_threading_factories()
    _setup_done = True


_FOREIGN: list | None = None


def foreign_magics() -> list:
    """bc_magic as OTHER interpreter versions running the same jinja code would compute it: jinja2/bccache.py is
    executed again as a scratch module while sys.version_info / sys.hexversion report another CPython (3.11, 3.13,
    2.7).  Entries carrying such a header are what a cache directory shared between interpreters contains."""
    global _FOREIGN
    if _FOREIGN is None:
        import importlib.util
        import sys

        import jinja2.bccache as B

        class VI(tuple):
            major = property(lambda self: self[0])
            minor = property(lambda self: self[1])
            micro = property(lambda self: self[2])
            releaselevel = property(lambda self: self[3])
            serial = property(lambda self: self[4])

        res = []
        for vi, hexv in (((3, 11, 4, "final", 0), 0x030B04F0), ((3, 13, 0, "final", 0), 0x030D00F0), ((2, 7, 18, "final", 0), 0x020712F0)):
            real = (sys.version_info, sys.hexversion)
            try:
                spec = importlib.util.spec_from_file_location("jinja2._verif_foreign_bccache", B.__file__)
                m = importlib.util.module_from_spec(spec)
                sys.version_info, sys.hexversion = VI(vi), hexv
                try:
                    spec.loader.exec_module(m)
                finally:
                    sys.version_info, sys.hexversion = real
                magic = getattr(m, "bc_magic", None)
                if isinstance(magic, bytes):
                    res.append(magic)
            except Exception:
                sys.version_info, sys.hexversion = real
        _FOREIGN = res
    return _FOREIGN


class Obj:
    def __init__(self) -> None:
        self._p = "PRIV"
        self.q = "pub"


def _f(x):
    return x * 2


DATA = {"s": "<&>", "f": _f, "o": Obj(), "l": [1, 2, 3]}
# run-time-only configuration: looked up in the environment when the template RUNS, so environments that differ
# only in these may share cache entries and must still each render with their own (no tolerance, no classifier)
RT_FILTERS = [lambda v: f"f0({v})", lambda v: f"f1[{v}]", lambda v: f"f2<{v}>"]
RT_TESTS = [lambda v: True, lambda v: False, lambda v: len(str(v)) == 3]
TAIL = "{{ missing }}|{{ s|rtf }}|{% if s is rtt %}T{% else %}F{% endif %}|{{ rtg }}|{{ xg|default('nx') }}|{{ xg is defined }}|{% if s == 'never-equal' %}{{ s|optf }}{% endif %}\n"


def source(name: str, v: int, variant: int) -> str:
    body = [
        "  {% if true %}\n  <{{ s }}>{{ f(3) }}[{{ o._p }}]{{ o.q }}\n  {% endif %}\n{# c #}\n{{ x|default('d') }}\n",
        "{% for i in l %}\n  {{ i }}{{ s|upper }}\n{% endfor %}{{ 1 + 2 }}{{ '<b>' }}\n",
        "{% macro m(a) %}({{ a }}{{ s }}){% endmacro %}  {% set y = f(2) %}\n{{ m(y) }}{{ o._p|default('hidden') }}\n",
        "{{ s }}\n",
    ][variant % 4]
    return f"{name} v{v}\n{body}{TAIL}"


def cfg_key(cfg: dict) -> tuple:
    return tuple(sorted(cfg.items()))


def make_env(cfg: dict, loader, bcc):
    import jinja2
    from jinja2.sandbox import SandboxedEnvironment

    cls = SandboxedEnvironment if cfg["sandboxed"] else jinja2.Environment
    und = (jinja2.Undefined, jinja2.StrictUndefined, jinja2.DebugUndefined, jinja2.ChainableUndefined)[cfg.get("undefined", 0)]
    env = cls(
        loader=loader, bytecode_cache=bcc, cache_size=0, autoescape=cfg["autoescape"], trim_blocks=cfg["trim_blocks"],
        lstrip_blocks=cfg["lstrip_blocks"], enable_async=cfg["enable_async"], optimized=cfg["optimized"],
        keep_trailing_newline=cfg["keep_trailing_newline"], undefined=und,
    )
    rt = cfg.get("rt", 0)
    env.filters["rtf"] = RT_FILTERS[rt]
    env.tests["rtt"] = RT_TESTS[rt]
    env.globals["rtg"] = f"g{rt}"
    if cfg.get("of"):
        env.filters["optf"] = lambda v: f"optf({v})"  # a filter only some environments register (used in a branch never taken)
    if cfg.get("xg"):
        env.globals["xg"] = "XG"  # a global that only some environments HAVE (which names exist is run-time configuration)
    return env


def compile_part(cfg) -> tuple:
    d = dict(cfg)
    return tuple((o, d[o]) for o in OPTIONS)


def _render_key(fn):
    try:
        return ("ok", scrub(fn()))
    except F.SimCrash:
        raise
    except T.SimAbort:
        raise
    except BaseException as e:  # noqa: BLE001
        e.with_traceback(None)  # C-level: works for exception classes that forbid attribute assignment
        return ("raised", exc_key(e), e)


def reference(cfg: dict, src: str):
    # keyed by digest, not by the string: the harness must not keep old source strings alive
    key = (cfg_key(cfg), digest(src))
    r = _REF.get(key)
    if r is None:
        import jinja2

        if len(_REF) > 5000:
            _REF.clear()
        env = make_env(cfg, jinja2.DictLoader({"t": src}), None)
        r = _render_key(lambda: env.get_template("t").render(**DATA))
        r = r[:2]
        _REF[key] = r
    return r


def cross_config(reader_cfg: dict, writer_cfg: dict, src: str, name: str):
    """Behaviour of executing the code compiled under writer_cfg in an environment configured as reader_cfg."""
    wenv = make_env(writer_cfg, None, None)
    renv = make_env(reader_cfg, None, None)

    def go():
        code = wenv.compile(src, name, None)
        t = renv.template_class.from_code(renv, code, renv.make_globals(None), None)
        return t.render(**DATA)

    return _render_key(go)[:2]


class Proc:
    def __init__(self, idx: int, cfg: dict) -> None:
        self.idx = idx
        self.cfg = cfg
        self.gen = 0
        self.env = None

    @property
    def pid(self):
        return (self.idx, self.gen)


def run(tape: Tape) -> Outcome:
    setup()
    clear_process_caches()  # a run must not depend on the runs before it in this worker
    import jinja2
    from jinja2.bccache import FileSystemBytecodeCache, MemcachedBytecodeCache, bc_magic

    out = Outcome()
    backend = "memcached" if tape.draw(4) == 3 else "fs"
    # same configuration / one compile-relevant option differs / only run-time options differ / differently configured
    # OVERLAYS that were each given their own cache (file pattern) - the documented way to keep configurations apart
    cfgmode = (0, 0, 1, 2, 3)[tape.draw(5)]
    if cfgmode == 3 and backend != "fs":
        cfgmode = 0
    mixed = cfgmode == 1
    mode_name = ("same-config", "mixed-config", "mixed-runtime-config", "separate-caches")[cfgmode]
    nproc = 2 + tape.draw(2)
    base = {o: bool(tape.draw(2)) for o in OPTIONS}
    base["enable_async"] = base["enable_async"] and tape.draw(2) == 1
    base["undefined"] = tape.weighted([5, 1, 1, 1])
    base["rt"] = tape.draw(3)
    base["xg"] = bool(tape.draw(2))
    base["of"] = bool(tape.draw(2))
    cfgs = []
    for p in range(nproc):
        c = dict(base)
        if mixed and p > 0:
            o = OPTIONS[tape.draw(len(OPTIONS))]
            c[o] = not c[o]
        if cfgmode == 3 and p > 0:
            o = OVERLAY_OPTIONS[tape.draw(len(OVERLAY_OPTIONS))]
            c[o] = not c[o]
        if cfgmode == 2 and p > 0:
            which = tape.draw(4)
            if which == 3:
                c["of"] = not c["of"]
            elif which == 1:
                c["undefined"] = (c["undefined"] + 1 + tape.draw(3)) % 4
            elif which == 2:
                c["xg"] = not c["xg"]
            else:
                c["rt"] = (c["rt"] + 1 + tape.draw(2)) % 3
        cfgs.append(c)
    names = ("a", "b")[: 1 + tape.draw(2)]
    variant = {n: tape.draw(4) for n in names}
    ignore_mc_errors = bool(tape.draw(2))
    loader_kind = tape.draw(3)  # DictLoader / FunctionLoader returning a fresh string per load / ChoiceLoader with a shadowed copy
    fresh_strings = loader_kind == 1
    write_buffer = (8192, 16, 256)[tape.draw(3)]
    nrounds = 3 + tape.draw(8)
    rounds = []
    for _ in range(nrounds):
        k = tape.weighted([8, 3, 3, 1, 1, 1, 2, 1])
        if k == 0:
            rounds.append(("load", tape.draw(nproc), tape.pick(names)))
        elif k == 1:
            p1 = tape.draw(nproc)
            p2 = (p1 + 1 + tape.draw(nproc - 1)) % nproc
            rounds.append(("load2", p1, tape.pick(names), p2, tape.pick(names)))
        elif k == 2:
            rounds.append(("modify", tape.pick(names), tape.weighted([3, 1, 1, 1])))
        elif k == 3:
            rounds.append(("clear", tape.draw(nproc)))
        elif k == 4:
            rounds.append(("restart", tape.draw(nproc)))
        elif k == 7:
            # the source goes BACK to an earlier text (an edit reverted, a file restored from backup)
            rounds.append(("revert", tape.pick(names)))
        elif k == 6:
            # two threads of one process (one Environment, one bytecode-cache object), optionally with a source edit
            # landing while they load
            rounds.append(("load2t", tape.draw(nproc), tape.pick(names), tape.pick(names),
                           tape.pick(names) if tape.draw(3) else None, tape.weighted([3, 1])))
        else:
            rounds.append(("sync",))
    # fault plan
    nf = tape.draw(3, "f")
    faults = []
    for _ in range(nf):
        faults.append((tape.draw(8, "f"), tape.draw(4096, "f"), tape.draw(4096, "f")))

    store: dict[str, str] = {}
    version = {n: 0 for n in names}
    older_entries: dict[str, bytes] = {}

    subtle_state = {n: 0 for n in names}
    past_sources: dict[str, list[str]] = {n: [] for n in names}

    def bump(n, subtle=0):
        """New source for n.  subtle=0: the version number changes (same length).  subtle>0: an edit a careless
        checksum could miss: only the trailing newline, or one line break replaced by another separator."""
        if subtle:
            subtle_state[n] += subtle
        else:
            version[n] += 1
        base_src = source(n, version[n] + 10 * names.index(n), variant[n])
        k = subtle_state[n] % 6
        if k == 1:
            base_src = base_src.rstrip("\n")
        elif k == 2:
            base_src = base_src + "\n"
        elif k == 3:
            base_src = base_src.replace("\n", "\x0c", 1)
        elif k == 4:
            base_src = base_src.replace("\n", "\u2028", 1)
        elif k == 5:
            base_src = base_src.replace("\n", "\r\n", 1)
        if n in store:
            past_sources[n].append(store[n])
        store[n] = base_src

    for n in names:
        bump(n)

    fs = F.use(F.SimFS())
    fs.write_buffer = write_buffer
    fs.dirs.add(CACHE_DIR)
    tmpn = [0]

    def tmp_name():
        tmpn[0] += 1
        return f"{tape.draw(1000, 't'):03d}{tmpn[0]}"

    fs.tmp_names = tmp_name
    mc = F.SimMemcache(fs)
    procs = [Proc(i, cfgs[i]) for i in range(nproc)]

    def start(p: Proc) -> None:
        p.gen += 1
        fs.writer_tags[p.pid] = cfg_key(p.cfg)
        if backend == "fs":
            bcc = FileSystemBytecodeCache(CACHE_DIR)
        else:
            bcc = MemcachedBytecodeCache(mc, ignore_memcache_errors=ignore_mc_errors)
        if fresh_strings:
            # like a loader that reads its source anew on every load: a fresh string object each time
            loader = jinja2.FunctionLoader(lambda name: (store[name] + " ")[:-1] if name in store else None)
        elif loader_kind == 2:
            # the same names exist, with other content, in a lower-priority loader: a failing cache write inside the
            # first delegate's load() must not make the choice fall through to it
            shadow = {n_: f"SHADOWED {n_}\n{{{{ s }}}}" for n_ in names}
            loader = jinja2.ChoiceLoader([jinja2.DictLoader(store), jinja2.DictLoader(shadow)])
        else:
            loader = jinja2.DictLoader(store)
        if cfgmode == 3 and p.idx > 0 and backend == "fs":
            # this process configures a base environment like process 0 and derives its own variant with overlay(),
            # giving the variant a cache of its own; the base is used first, so its entries exist
            base_env = make_env(cfgs[0], loader, bcc)
            own = FileSystemBytecodeCache(CACHE_DIR, pattern=f"__p{p.idx}_%s.cache")
            delta = {o_: p.cfg[o_] for o_ in OVERLAY_OPTIONS if p.cfg[o_] != cfgs[0][o_]}
            p.base = base_env
            p.env = base_env.overlay(bytecode_cache=own, **delta)
        else:
            p.base = None
            p.env = make_env(p.cfg, loader, bcc)

    for p in procs:
        start(p)

    for kind, a, b in faults:
        if kind == 1:
            fs.faults[a] = ("crash-before",)
        elif kind in (2, 3):
            fs.faults[a] = ("crash-after", kind == 3, b)
        elif kind == 4:
            fs.faults[a] = ("error", (28, 5, 13, 2)[b % 4], (b // 4) % 64)
        elif kind == 7:
            mc.faults[a] = (("raise", "evict", "truncate", "lost")[b % 4], b // 4)

    def entry_path(n: str) -> str:
        bcc = FileSystemBytecodeCache(CACHE_DIR)
        return CACHE_DIR + "/" + bcc.pattern % (bcc.get_cache_key(n, None),)

    def mc_key(n: str) -> str:
        return "jinja2/bytecode/" + FileSystemBytecodeCache(CACHE_DIR).get_cache_key(n, None)

    def entry_bytes(n: str):
        return fs.get(entry_path(n)) if backend == "fs" else mc.store.get(mc_key(n))

    def set_entry(n: str, data: bytes | None) -> None:
        if backend == "fs":
            if data is None:
                fs.unlink(entry_path(n))
            else:
                fs.put(entry_path(n), data, writer=None)
        else:
            if data is None:
                mc.store.pop(mc_key(n), None)
            else:
                mc.store[mc_key(n)] = data
                mc.meta[mc_key(n)] = None

    counters = out.counters
    state = {"any_fault": False, "checked_after_fault": False, "power_rng": None}
    steps_dec = []
    entry_len_by_round = {}
    sched_traces = []

    def do_load(p: Proc, n: str, reset: bool = True):
        """Runs inside the process (possibly a sim thread).  Returns result key."""
        if reset:  # (threads of one process share the read log of their round)
            fs.reads[p.pid] = []
            mc.reads[p.pid] = []
        fired0 = len(fs.fired) + len(mc.fired)
        src = store[n]
        env = p.env
        if getattr(p, "base", None) is not None:
            try:
                p.base.get_template(n)  # the base configuration is in use in this process as well
            except F.SimCrash:
                raise
            except T.SimAbort:
                raise
            except BaseException:  # noqa: BLE001 - judged through the variant's load below
                pass
        r = _render_key(lambda: env.get_template(n).render(**DATA))
        return r, src, fired0

    def judge(p: Proc, n: str, r, src, fired0, ri: int, alt_src=None) -> bool:
        """True = continue; False = violation recorded.  alt_src: the source after an edit that landed while this load
        was in flight (either version is then a correct answer for THIS load; later loads are strict again)."""
        want = reference(p.cfg, src)
        got = r[:2]
        if alt_src is not None and got != want and got == reference(p.cfg, alt_src):
            want = got
        fired_here = (fs.fired + mc.fired)[fired0:] if False else None
        nfired_now = len(fs.fired) + len(mc.fired)
        ctx = "after-fault" if state["any_fault"] else "fault-free"
        if got == want:
            if state["any_fault"]:
                state["checked_after_fault"] = True
            return True
        # injected error object itself, in the load during which it was injected
        if r[0] == "raised" and nfired_now > fired0:
            inj = next((x for x in (fs.injected + mc.injected) if x is r[2]), None)
            if inj is not None:
                if backend == "memcached" and ignore_mc_errors:
                    out.violate(("client-error-not-ignored", exc_key(inj)[0]), round=ri, steps=steps_dec)
                    return False
                out.count("injected_error_propagated")
                return True
        # KF-C27-1: served an entry written under another configuration
        writers = [w for (_path, w, _ino) in fs.reads.get(p.pid, [])] if backend == "fs" else [w for (_k, w) in mc.reads.get(p.pid, [])]
        for w in writers:
            if cfgmode != 3 and w is not None and compile_part(w) != compile_part(p.cfg):
                alt = cross_config(p.cfg, dict(w), src, n)
                if alt == got:
                    out.known = "KF-C27-1"
                    break
        what = ("raised", got[1][0]) if got[0] == "raised" else ("wrong-output",)
        if got[0] == "ok" and want[0] == "ok":
            # attribute the text to a source version if possible
            first = got[1].split("\n", 1)[0]
            if first != src.split("\n", 1)[0] and first.startswith(n + " v"):
                what = ("stale-code",)
        out.violate((*what, backend, mode_name, ctx), round=ri, process=p.idx, template=n,
                    got=got, expected=want, steps=steps_dec)
        return False

    def power_loss(sel: int) -> None:
        rng = random.Random(sel)
        for path, ino in list(fs.names.items()):
            if ino.dirty_from is not None:
                j = rng.randint(ino.dirty_from, len(ino.data))
                if j < len(ino.data):
                    counters["power_loss_truncations"] = counters.get("power_loss_truncations", 0) + 1
                del ino.data[j:]
        for src_, dst in reversed(fs.renames_since_sync):
            if rng.random() < 0.4 and dst in fs.names:
                fs.names[src_] = fs.names.pop(dst)
                counters["power_loss_renames_undone"] = counters.get("power_loss_renames_undone", 0) + 1
        fs.sync()
        for q in procs:
            fs.dead.add(q.pid)

    def after_crash_bookkeeping() -> None:
        # a crash-after fault with the power-loss flag kills everybody
        for idx, kind, *_ in fs.fired:
            pass

    gc_was = gc.isenabled()
    gc.disable()
    try:
        for ri, rd in enumerate(rounds):
            # faults scheduled "before round ri"
            for kind, a, b in faults:
                if kind in (5, 6) and a % nrounds == ri and rd[0] in ("load", "load2"):
                    n = rd[2]
                    cur = entry_bytes(n)
                    if kind == 5:
                        if cur:
                            j = b % len(cur)
                            set_entry(n, cur[:j])
                            state["any_fault"] = True
                            out.count("damage_truncate_entry")
                            steps_dec.append(["damage", "truncate", n, j, len(cur)])
                    else:
                        v = b % 9
                        chk = pickle.dumps(FileSystemBytecodeCache(CACHE_DIR).get_source_checksum(store[n]), 2)
                        other_code = marshal.dumps(compile("raise SystemError('foreign code executed')", "<foreign>", "exec"))
                        if v == 0:
                            new = b"j2" + pickle.dumps(5, 2) + pickle.dumps((2 << 24) | 7, 2) + chk + other_code
                        elif v == 1:
                            new = b"j2" + pickle.dumps(4, 2) + bc_magic[len(b"j2" + pickle.dumps(5, 2)):] + chk + other_code
                        elif v == 2:
                            new = bytes((b * 7 + i * 13) % 256 for i in range(64))
                        elif v == 3:
                            new = b""
                        elif v == 4:
                            new = older_entries.get(n)
                        elif v >= 6:
                            # header as another interpreter version running THIS jinja code writes it; same name,
                            # same source checksum, that interpreter's (here: some other) code
                            fm = foreign_magics()
                            new = (fm[(v - 6) % len(fm)] + chk + other_code) if fm else None
                        else:
                            new = bc_magic + chk + b"\x00garbage-not-marshal"
                        if new is not None:
                            set_entry(n, new)
                            state["any_fault"] = True
                            out.count("damage_replace_entry_variant_%d" % v)
                            steps_dec.append(["damage", "replace", n, v])
            fired_before = len(fs.fired) + len(mc.fired)
            if rd[0] == "load":
                p = procs[rd[1]]
                if p.pid in fs.dead:
                    start(p)
                    steps_dec.append(["auto-restart", p.idx])
                fs.inline_pid = p.pid
                cur = entry_bytes(rd[2])
                entry_len_by_round[ri] = len(cur) if cur is not None else -1
                try:
                    r, src, fired0 = do_load(p, rd[2])
                except F.SimCrash:
                    steps_dec.append(["load", p.idx, rd[2], "CRASHED"])
                    state["any_fault"] = True
                    _after_crash(fs, procs, power_loss, out)
                    continue
                steps_dec.append(["load", p.idx, rd[2], r[0]])
                if len(fs.fired) + len(mc.fired) > fired_before:
                    state["any_fault"] = True
                if not judge(p, rd[2], r, src, fired0, ri):
                    break
            elif rd[0] == "load2":
                pa, pb = procs[rd[1]], procs[rd[3]]
                for q in (pa, pb):
                    if q.pid in fs.dead:
                        start(q)
                sched = T.Sched(tape, step_cap=100_000, wall_cap=30.0)
                sched.fs = fs
                fs.sched = sched
                results = {}

                def body(q, n):
                    def fn():
                        try:
                            results[q.idx] = do_load(q, n)
                        except F.SimCrash:
                            results[q.idx] = "CRASHED"
                    return fn

                ta = sched.spawn(body(pa, rd[2]), f"P{pa.idx}")
                tb = sched.spawn(body(pb, rd[4]), f"P{pb.idx}")
                ta.pid_ = pa.pid
                tb.pid_ = pb.pid
                plan = []
                for _ in range(tape.draw(4, "s")):
                    plan.append((tape.draw(2, "s"), 1 + tape.draw(24, "s"), 0))
                sched.plan(plan)
                try:
                    sched.run()
                finally:
                    fs.sched = None
                if sched.abort:
                    raise T.HarnessError("process round aborted: " + sched.abort)
                for st in sched.threads:
                    if st.exc is not None:
                        raise T.HarnessError(f"process thread raised {st.exc!r}")
                sched_traces.append(sched.trace)
                out.count("interleaved_rounds")
                out.count("interleaved_switches", sched.preempts_fired)
                if len(fs.fired) + len(mc.fired) > fired_before:
                    state["any_fault"] = True
                crashed = False
                ok = True
                for q, n in ((pa, rd[2]), (pb, rd[4])):
                    res = results.get(q.idx)
                    if res == "CRASHED" or res is None:
                        crashed = True
                        steps_dec.append(["load", q.idx, n, "CRASHED"])
                        continue
                    r, src, fired0 = res
                    steps_dec.append(["load||", q.idx, n, r[0]])
                    # concurrent loads share the fired list; use the round start as the window
                    if not judge(q, n, r, src, fired_before, ri):
                        ok = False
                        break
                if crashed:
                    state["any_fault"] = True
                    _after_crash(fs, procs, power_loss, out)
                if not ok:
                    break
            elif rd[0] == "load2t":
                p = procs[rd[1]]
                if p.pid in fs.dead:
                    start(p)
                    steps_dec.append(["auto-restart", p.idx])
                sched = T.Sched(tape, step_cap=400_000, wall_cap=30.0, line_level=True)
                sched.fs = fs
                fs.sched = sched
                results = {}
                before_src = dict(store)
                fs.reads[p.pid] = []
                mc.reads[p.pid] = []

                def tbody(k, n, p=p):
                    def fn():
                        try:
                            results[k] = do_load(p, n, reset=False)
                        except F.SimCrash:
                            results[k] = "CRASHED"
                    return fn

                def wbody(n=rd[4], subtle=rd[5]):
                    sched.yield_point("sys")
                    cur_ = entry_bytes(n)
                    if cur_:
                        older_entries[n] = cur_
                    bump(n, subtle)

                ths = [sched.spawn(tbody(0, rd[2]), f"P{p.idx}.t0"), sched.spawn(tbody(1, rd[3]), f"P{p.idx}.t1")]
                if rd[4] is not None:
                    ths.append(sched.spawn(wbody, "editor"))
                for th in ths[:2]:
                    th.pid_ = p.pid
                plan = []
                for _ in range(tape.draw(4, "s")):
                    plan.append((tape.draw(len(ths), "s"), 1 + tape.draw(160, "s"), tape.draw(2, "s")))
                sched.plan(plan)
                T.set_deep(True)
                try:
                    sched.run()
                finally:
                    T.set_deep(False)
                    fs.sched = None
                if sched.abort == "deadlock":
                    out.violate(("deadlock-in-process", backend, mode_name), round=ri, steps=steps_dec)
                    break
                if sched.abort:
                    raise T.HarnessError("thread round aborted: " + sched.abort)
                for st in sched.threads:
                    if st.exc is not None:
                        raise T.HarnessError(f"thread raised {st.exc!r}")
                sched_traces.append(sched.trace)
                out.count("thread_rounds")
                out.count("thread_round_switches", sched.preempts_fired)
                if rd[4] is not None:
                    out.count("thread_rounds_with_source_edit")
                    steps_dec.append(["modify||", rd[4], version[rd[4]], "subtle-edit" if rd[5] else "new-version"])
                if len(fs.fired) + len(mc.fired) > fired_before:
                    state["any_fault"] = True
                crashed = False
                ok = True
                for k, n in ((0, rd[2]), (1, rd[3])):
                    res = results.get(k)
                    if res == "CRASHED" or res is None:
                        crashed = True
                        steps_dec.append(["load", p.idx, n, "CRASHED"])
                        continue
                    r, src, fired0 = res
                    steps_dec.append(["load|t|", p.idx, n, r[0]])
                    alt = None
                    if rd[4] == n:
                        alt = store[n] if src == before_src[n] else before_src[n]
                    if not judge(p, n, r, src, fired_before, ri, alt_src=alt):
                        ok = False
                        break
                if crashed:
                    state["any_fault"] = True
                    _after_crash(fs, procs, power_loss, out)
                if not ok:
                    break
            elif rd[0] == "revert":
                n = rd[1]
                if past_sources[n]:
                    cur = entry_bytes(n)
                    if cur:
                        older_entries[n] = cur
                    prev = past_sources[n].pop()
                    past_sources[n].append(store[n])
                    store[n] = prev
                    steps_dec.append(["revert", n])
            elif rd[0] == "modify":
                n = rd[1]
                cur = entry_bytes(n)
                if cur:
                    older_entries[n] = cur
                bump(n, rd[2])
                steps_dec.append(["modify", n, version[n], "subtle-edit" if rd[2] else "new-version"])
            elif rd[0] == "clear":
                p = procs[rd[1]]
                if p.pid in fs.dead:
                    start(p)
                fs.inline_pid = p.pid
                try:
                    p.env.bytecode_cache.clear()
                    steps_dec.append(["clear", p.idx])
                except F.SimCrash:
                    steps_dec.append(["clear", p.idx, "CRASHED"])
                    state["any_fault"] = True
                    _after_crash(fs, procs, power_loss, out)
                except OSError as e:
                    if any(e is x for x in fs.injected):
                        steps_dec.append(["clear", p.idx, "injected-error"])
                        state["any_fault"] = True
                    else:
                        out.violate(("clear-raised", type(e).__name__), round=ri, steps=steps_dec)
                        break
                except Exception as e:  # anything else out of clear() is an outcome, not a harness error
                    out.violate(("clear-raised", type(e).__name__), round=ri, steps=steps_dec)
                    break
            elif rd[0] == "restart":
                p = procs[rd[1]]
                fs.dead.add(p.pid)
                start(p)
                steps_dec.append(["restart", p.idx])
            else:
                fs.sync()
                steps_dec.append(["sync"])
    finally:
        fs.sched = None
        if gc_was:
            gc.enable()
    for f_ in fs.fired:
        out.count("fs_fault_" + f_[1] + "_at_" + f_[2])
        if f_[1] == "error":
            out.count("fs_error_" + f_[3])
    for f_ in mc.fired:
        out.count("memcached_fault_" + f_[1] + "_" + f_[2])
    out.count("histories")
    out.count("backend_" + backend)
    out.count("config_" + mode_name)
    out.count("syscall_events", fs.nevents)
    out.decoded = {
        "backend": backend, "config_mode": mode_name, "configs": cfgs, "write_buffer": write_buffer,
        "loader": ("DictLoader", "FunctionLoader (fresh source string per load)", "ChoiceLoader([DictLoader, shadow DictLoader])")[loader_kind],
        "ignore_memcache_errors": ignore_mc_errors if backend == "memcached" else None,
        "rounds": [list(r) for r in rounds], "fault_plan(kind,a,b)": [list(f_) for f_ in faults],
        "fired": [list(map(str, f_)) for f_ in fs.fired + mc.fired], "steps": steps_dec,
        "syscall_events": fs.nevents, "memcached_events": mc.nevents,
        "event_log": [list(e) for e in fs.log[:400]], "entry_len_by_round": entry_len_by_round,
        "schedules": sched_traces[:3],
    }
    out.trace = digest([steps_dec, [list(map(str, x)) for x in fs.fired], fs.nevents, mc.nevents, sched_traces])
    if out.sig is None and state["any_fault"] and state["checked_after_fault"]:
        out.case = digest([rounds, cfgs, [list(map(str, x)) for x in fs.fired + mc.fired], steps_dec, sched_traces, backend])
    return out


def _after_crash(fs, procs, power_loss, out) -> None:
    """If the crash that just fired was a power loss, apply the durability model to everything."""
    for idx, f_ in list(fs.faults.items()):
        if f_[0] == "crash-after" and len(f_) > 1 and f_[1] and any(x[0] == idx for x in fs.fired):
            power_loss(f_[2])
            out.count("power_loss")
            fs.faults[idx] = ("spent",)



from sim.core import guarded as _guarded  # noqa: E402

run = _guarded(run)


def unit(index: int, seed: int, tier: str):
    base_seed = run_seed(seed, ID, index)
    rng = random.Random(base_seed ^ 0xC27)
    tp = Tape(base_seed, preset={"f": []})
    o = run(tp)
    yield tp, o
    if o.sig is not None:
        return
    w = list(tp.streams.get("w", []))
    t_ = list(tp.streams.get("t", []))
    s_ = list(tp.streams.get("s", []))
    d = o.decoded
    n_ev = d["syscall_events"]
    n_mc = d["memcached_events"]
    nrounds = len(d["rounds"])
    plans: list[list[int]] = []
    for a in range(1, n_ev + 1):
        plans.append([1, 1, a, 0])
        plans.append([1, 2, a, 0])
        plans.append([1, 3, a, rng.randrange(4096)])
        for b in range(4):
            plans.append([1, 4, a, b + 4 * rng.randrange(64)])
    for ri, ln in d["entry_len_by_round"].items():
        ri = int(ri)
        if ln and ln > 0:
            for j in range(ln):
                plans.append([1, 5, ri, j])
        for v in range(9):
            plans.append([1, 6, ri, v])
    for a in range(1, n_mc + 1):
        for b in range(4):
            plans.append([1, 7, a, b + 4 * rng.randrange(1000)])
    limit = 64 if tier == "quick" else 3000
    total_positions = len(plans)
    if len(plans) > limit:
        # keep every kind represented
        by_kind: dict = {}
        for p in plans:
            by_kind.setdefault(p[1], []).append(p)
        share = max(limit // max(len(by_kind), 1), 1)
        sel = []
        for k, lst in by_kind.items():
            sel += lst if len(lst) <= share else rng.sample(lst, share)
        plans = sel
    # two-fault plans
    singles = list(plans)
    for _ in range(6 if tier == "quick" else 300):
        if len(singles) >= 2:
            p1, p2 = rng.sample(singles, 2)
            plans.append([2, *p1[1:], *p2[1:]])
    for j, f in enumerate(plans):
        tp2 = Tape(base_seed + 1 + j, preset={"w": w, "t": t_, "s": s_, "f": f})
        o2 = run(tp2)
        if j == 0:
            o2.count("units_all_fault_positions_enumerated" if total_positions <= limit else "units_fault_positions_sampled")
            o2.count("fault_positions_total", total_positions)
        yield tp2, o2
