"""C30 - template compilation is deterministic.

The nondeterminism the property names is the interpreter's string-hash seed and
process history; both are behind seams the simulator owns: a pool of FRESH
worker interpreters, each started with a PYTHONHASHSEED drawn from the tape
(plus 0), is fed the same generated corpus; inside a worker the corpus is
compiled in a drawn order, then caches are cleared, unrelated templates are
compiled, and the corpus is compiled again in another drawn order.

Oracle: for every (template, configuration) all digests of
Environment.compile(source, raw=True) - both passes, all workers - are equal.
On a mismatch the two generated sources are diffed into the replay file.
"""
from __future__ import annotations

import difflib
import json
import os
import random
import subprocess
import sys

from sim.core import Outcome, digest
from sim.tape import Tape
from sim.workload import Gen

ID = "C30"
LEVEL = "exploration"
RULE = (
    "work unit = one generated corpus (8-24 template sets x configuration drawn from sync/async, sandboxed, i18n extension, "
    "loop controls, autoescape, an environment-dependent finalize callable shared between environments) biased to the sites where a set of names becomes emitted text (stores in both branches of an if, "
    "many filters/tests in a frame, multi-name top-level sets and block sets, include / import-with-context after stores at "
    "several frame depths, multi-name from-imports, macros with varargs/kwargs/caller, tuple unpacking) compiled in 3 (quick) or "
    "6 (thorough) fresh interpreters with drawn PYTHONHASHSEED values, each in two drawn orders with clear_caches and unrelated "
    "compilations in between. An evaluation = one (template, configuration, interpreter, pass) compilation. Non-trivial = a "
    "template in which >= 2 names flow through one of the biased sites; distinct = digest(source, configuration)."
    ' Other interpreters than the base one run disturbances (failing expression / template compilations, meta introspection, lexing) in the same environment before a compilation; a zoo of constant expressions is folded into the source; per corpus 12 (quick) / 60 (thorough) further runs compile on 2-3 simulated threads at once and compare with the source obtained alone.'
)
ASSUMPTIONS = [
    "hash-seed dependence shows as differing generated source between interpreters with different PYTHONHASHSEED; 3-6 seeds per corpus are sampled, not all",
    "the generator aims at known set-to-text sites; a site it does not reach is not covered (coverage counters per site are in the evidence)",
]
REAL_STUB = {
    "real": ["jinja2 lexer/parser/idtracking/compiler in fresh CPython interpreters"],
    "stub": ["nothing stubbed; the seams are PYTHONHASHSEED and the per-process compilation history, both drawn from the seed"],
}
BUDGET = {"quick": 40, "thorough": 600}
BATCH = {"quick": 1, "thorough": 1}
DET_UNITS = {"quick": 6, "thorough": 12}
DET_FRESH = {"quick": 3, "thorough": 6}
MINIMISE = {"max_runs": 30, "max_seconds": 60.0}
HERE = os.path.dirname(os.path.abspath(__file__))
BIAS = ("bias_branch_stores", "bias_tuple_set", "bias_loop_stores", "bias_nested_frames", "bias_many_filters_tests", "bias_macro_special",
        "bias_namespace_tuple_set")


def _worker(job: dict, hashseed: str) -> dict:
    env = dict(os.environ, PYTHONHASHSEED=hashseed)
    p = subprocess.run([sys.executable, os.path.join(HERE, "c30_worker.py")], input=json.dumps(job), capture_output=True,
                       text=True, env=env, timeout=600)
    if p.returncode != 0:
        raise RuntimeError("c30 worker failed: " + p.stderr[-1500:])
    return json.loads(p.stdout)


_threads_ready = False


def _setup_threads() -> None:
    """In-process simulated threads for overlapping compilations (the interpreter-pool runs need none of this)."""
    global _threads_ready
    if _threads_ready:
        return
    import sim
    from sim import threads as T

    src = sim.use_repo()
    import jinja2.debug  # noqa: F401
    import jinja2.ext  # noqa: F401
    import jinja2.meta  # noqa: F401
    import jinja2.sandbox  # noqa: F401
    import jinja2.utils as U

    T.TOGGLE_LINE[0] = True
    T.install(src, line_events=True, instr_classes=[U.LRUCache, __import__("functools").cached_property])
    U.Lock = T.SimLock
    T.neutralise_real_locks()
    T.install_threading_factories()
    _threads_ready = True


def run_threads(tape: Tape) -> Outcome:
    """2-3 simulated threads compile templates at the same time (own or shared Environment), pre-empted at source
    lines of the whole compilation pipeline.  Every generated source must equal the source the same template gives
    when it is compiled alone."""
    _setup_threads()
    import jinja2
    from jinja2.sandbox import SandboxedEnvironment

    from sim import threads as T
    from sim.envs import clear_process_caches

    out = Outcome()
    cfg = {"async": bool(tape.draw(2)), "sandboxed": tape.draw(4) == 3, "loopcontrols": bool(tape.draw(2)),
           "autoescape": bool(tape.draw(2)), "i18n": tape.draw(3, "m") == 2}
    g = Gen(tape, is_async=cfg["async"], loopcontrols=cfg["loopcontrols"], compile_bias=True, size=2 + tape.draw(3), i18n=cfg["i18n"])
    P = g.generate()
    if cfg["i18n"]:
        # every template ends with trans blocks over its own free variables (the extension instance is shared by all
        # compilations of the environment)
        for n_ in sorted(P.templates):
            fv = g._names(2, 4)
            P.templates[n_] += ("{% trans %}" + " ".join("{{ %s }}" % v for v in fv) + "{% endtrans %}"
                                + "{% trans count=n1 %}" + " {{ count }} ".join("{{ %s }}" % v for v in fv[:2]) + "{% pluralize %}"
                                + " ".join("{{ %s }}" % v for v in reversed(fv)) + "{% endtrans %}")
    micro = tape.draw(3, "m") == 2
    if micro:
        # two tiny templates whose single expression is folded at compile time through the SAME filter with other
        # arguments; every step of the serial run inside filter code is tried as a pre-emption (below)
        from sim.workload import CONST_PAIRS

        a_, b_ = CONST_PAIRS[tape.draw(len(CONST_PAIRS))]
        P.templates = {"main": "{{ " + a_ + " }}", "m1": "{{ " + b_ + " }}"}
    names = sorted(P.templates)
    nt = 2 if micro else 2 + tape.draw(2)
    shared_env = bool(tape.draw(2))
    progs = [["main"], ["m1"]] if micro else [[tape.pick(names) for _ in range(1 + tape.draw(2))] for _ in range(nt)]

    def mk_env():
        cls = SandboxedEnvironment if cfg["sandboxed"] else jinja2.Environment
        return cls(enable_async=cfg["async"], autoescape=cfg["autoescape"],
                   extensions=(["jinja2.ext.loopcontrols"] if cfg["loopcontrols"] else []) + (["jinja2.ext.i18n"] if cfg["i18n"] else []))

    def compile_one(env, name):
        try:
            return env.compile(P.templates[name], name, None, raw=True)
        except T.SimAbort:
            raise
        except jinja2.TemplateSyntaxError as e:
            return "SYNTAXERROR:" + str(e)
        except Exception as e:
            return "COMPILER-RAISED:" + type(e).__name__ + ":" + str(e)[:200]

    clear_process_caches()
    alone = {n: compile_one(mk_env(), n) for n in names}

    def execute(sched_tape, plan, serial):
        clear_process_caches()
        env0 = mk_env()
        env0.lexer  # noqa: B018
        envs = [env0 if shared_env else mk_env() for _ in range(nt)]
        for e_ in envs:
            e_.lexer  # noqa: B018
        sched = T.Sched(sched_tape, step_cap=12_000_000, line_level=True, wall_cap=90.0, record_regions=serial)
        results = [[None] * len(p_) for p_ in progs]

        def body(tid):
            def fn():
                for j, n in enumerate(progs[tid]):
                    results[tid][j] = compile_one(envs[tid], n)
            return fn

        for tid in range(nt):
            sched.spawn(body(tid), f"T{tid}")
        sched.plan(plan)
        if serial:
            sched.run_serial()
        else:
            sched.run()
        return sched, results

    s0, r0 = execute(Tape(streams={}), [], True)
    horizons = [max(th.local_step, 1) for th in s0.threads]
    plan = []
    for _ in range(1 + tape.draw(3, "s")):
        tid = tape.draw(nt, "s")
        plan.append((tid, 1 + tape.draw(horizons[tid], "s"), tape.draw(nt - 1, "s")))
    plans = [plan]
    if micro:
        for tid_ in (0, 1):
            regs_ = s0.threads[tid_].regions or []
            idx_ = [i_ for i_, r_ in enumerate(regs_) if r_ == "runtime"]
            if len(idx_) > 64:
                idx_ = idx_[:: max(len(idx_) // 64, 1)][:64]
            plans += [[(tid_, 1 + i_, 0)] for i_ in idx_]
        out.count("thread_compile_micro_runs")
    for pi_, plan in enumerate(plans):
        sched, results = execute(tape, plan, False)
        bad_ = any(results[t_][j_] != alone[n_] for t_, p_ in enumerate(progs) for j_, n_ in enumerate(p_))
        if bad_ or sched.abort or pi_ == len(plans) - 1:
            break
    out.evals = sum(len(p_) for p_ in progs) * (pi_ + 1)
    out.count("thread_compile_runs")
    out.count("thread_compile_preemptions_fired", sched.preempts_fired)
    out.count("thread_compile_steps", sched.gstep)
    out.decoded = {"kind": "concurrent-compile", "cfg": cfg, "shared_environment": shared_env, "templates": P.templates,
                   "threads": progs, "plan(tid,local_step,target)": plan, "switch_trace": sched.trace[:40]}
    out.trace = digest([sched.trace, [[digest(x) for x in r_] for r_ in results]])
    if sched.abort == "deadlock":
        out.violate(("deadlock-while-compiling",), trace=sched.trace[-5:])
        return out
    if sched.abort:
        raise T.HarnessError("run aborted: " + sched.abort)
    for th in sched.threads:
        if th.exc is not None:
            raise T.HarnessError(f"harness thread raised {th.exc!r}")
    for tid, p_ in enumerate(progs):
        for j, n in enumerate(p_):
            if results[tid][j] != alone[n]:
                a, b = alone[n] or "", results[tid][j] or ""
                diff = list(difflib.unified_diff(a.splitlines(), b.splitlines(), "compiled alone", "compiled concurrently", lineterm="", n=1))
                kind = "concurrent" if r0[tid][j] == alone[n] else "also-serial"
                out.violate(("generated-source-differs", "overlapping-compilations", kind), thread=tid, template=n, diff=diff[:40])
                return out
    if sched.preempts_fired:
        out.cases = [digest(["tc", P.templates, progs, sched.trace])]
    return out


def run(tape: Tape) -> Outcome:
    if tape.draw(2, "k") == 1:
        return run_threads(tape)
    import sim

    sim.use_repo()
    out = Outcome()
    nsets = 8 + tape.draw(17)
    tier_workers = 3 + 3 * tape.draw(2, "h")  # 3 or 6 interpreters
    corpus = []
    nontrivial_ids = set()
    for si in range(nsets):
        cfg = {"async": bool(tape.draw(2)), "sandboxed": tape.draw(4) == 3, "i18n": tape.draw(4) == 3,
               "loopcontrols": bool(tape.draw(2)), "autoescape": (False, True, "select")[tape.draw(3)], "finalize": tape.draw(3) == 2}
        g = Gen(tape, is_async=cfg["async"], loopcontrols=cfg["loopcontrols"], compile_bias=True, size=2 + tape.draw(3))
        P = g.generate()
        biased = any(P.features.get(b) for b in BIAS)
        for name, src in sorted(P.templates.items()):
            if cfg["i18n"] and name == "main":
                src += "{% trans a=n1, b=n2, c=s1 %}x {{ a }} {{ b }} {{ c }}{% pluralize a %}y {{ b }}{% endtrans %}"
                # free variables inside the block (not declared in the tag): the extension registers them itself
                free = g._names(2, 5)
                src += "{% trans %}" + " ".join("{{ %s }}" % n for n in free) + "{% endtrans %}"
                src += ("{% trans count=n1 %}" + " ".join("{{ %s }}" % n for n in free[:2]) + " {{ count }}{% pluralize %}"
                        + " ".join("{{ %s }}" % n for n in reversed(free)) + "{% endtrans %}")
                out.count("templates_with_i18n_free_variables")
            cid = len(corpus)
            if cfg["autoescape"] == "select":
                # compile() never loads the other templates, so the name is free: autoescaping is chosen from it
                name = name + tape.pick([".html.j2", ".txt.j2", ".xml.j2", ".html", ".j2", ".htm"])
                out.count("templates_autoescape_selected_by_name")
            corpus.append({"id": cid, "name": name, "source": src, "cfg": cfg})
            if biased:
                nontrivial_ids.add(cid)
        if tape.draw(3) == 2:
            # a template whose compilation FAILS while macro parameter defaults are emitted (process history for later compiles)
            pn = [f"{tape.pick(['x', 'p', 'k', 'i', 'wi'])}{1 + tape.draw(12)}" for _ in range(3)]
            bad = "{% macro mq(" + ", ".join(f"{n}=1|nosuchfilter{j}" for j, n in enumerate(dict.fromkeys(pn))) + ") %}{% endmacro %}"
            corpus.append({"id": len(corpus), "name": "bad", "source": bad, "cfg": cfg})
            out.count("failing_compile_templates")
        for b in BIAS:
            if P.features.get(b):
                out.count("templates_sets_with_" + b)
    ids = [c["id"] for c in corpus]
    seeds = ["0"] + [str(1 + tape.draw(4_000_000_000, "h")) for _ in range(tier_workers - 1)]
    results = []
    for hs in seeds:
        r1 = random.Random(tape.draw(1 << 30, "h"))
        o1 = list(ids)
        o2 = list(ids)
        r1.shuffle(o1)
        r1.shuffle(o2)
        unrelated = [corpus[r1.randrange(len(corpus))]["source"] for _ in range(r1.randrange(4))]
        dseed = 0 if hs == "0" else 1 + r1.randrange(1 << 30)  # the base interpreter runs undisturbed
        results.append((hs, _worker({"corpus": corpus, "order1": o1, "order2": o2, "unrelated": unrelated, "dseed": dseed}, hs), o1, o2, unrelated, dseed))
    out.count("corpora")
    out.count("templates", len(corpus))
    out.count("interpreters", len(seeds))
    out.count("compilations", 2 * len(corpus) * len(seeds))
    base = results[0][1]["pass1"]
    bad = None
    for hs, r, o1, o2, unrel, dseed in results:
        for pname in ("pass1", "pass2"):
            for cid in ids:
                if r[pname][str(cid)] != base[str(cid)] and bad is None:
                    bad = (cid, hs, pname, o1, o2, unrel, dseed)
    out.trace = digest([base, [r[1]["pass2"] for r in results]])
    out.decoded = {"templates": len(corpus), "hash_seeds": seeds,
                   "sample": {"name": corpus[0]["name"], "cfg": corpus[0]["cfg"], "source": corpus[0]["source"][:400]}}
    if bad:
        cid, hs, pname, o1, o2, unrel, dseed = bad
        a = _worker({"corpus": corpus, "order1": ids, "order2": ids, "dump": [cid]}, "0")["dumped"][str(cid)]
        b = _worker({"corpus": corpus, "order1": o1, "order2": o2, "unrelated": unrel, "dump": [cid], "dseed": dseed}, hs)["dumped"][str(cid)]
        diff = list(difflib.unified_diff(a.splitlines(), b.splitlines(), "PYTHONHASHSEED=0", f"PYTHONHASHSEED={hs}", lineterm="", n=1))
        # same process history under hash seed 0: if that already gives the deviating source, history is the cause
        c = _worker({"corpus": corpus, "order1": o1, "order2": o2, "unrelated": unrel, "dump": [cid], "dseed": dseed}, "0")
        kind = "process-history" if (c["dumped"][str(cid)] == b or c["pass1"][str(cid)] != c["pass2"][str(cid)]) else "hash-seed"
        out.violate(("generated-source-differs", kind), template=corpus[cid], hashseed=hs, compile_pass=pname, diff=diff[:60])
        return out
    out.evals = 2 * len(corpus) * len(seeds)
    out.cases = [digest([c["source"], c["cfg"]]) for c in corpus if c["id"] in nontrivial_ids]
    out.count("nontrivial_templates", len(nontrivial_ids))
    return out



from sim.core import guarded as _guarded  # noqa: E402

run = _guarded(run, 240.0)


def unit(index: int, seed: int, tier: str):
    from sim.tape import run_seed

    # the first draw of stream "h" selects 3 or 6 interpreters; quick pins it to 3
    base = run_seed(seed, ID, index)
    if tier == "quick":
        tp = _PinnedTape(base, first_h=0)
    else:
        tp = _PinnedTape(base, first_h=1)
    tp.streams["k"] = [0]
    tp.fixed.add("k")
    yield tp, run(tp)
    # overlapping compilations in this process (simulated threads), several per corpus
    for j in range(12 if tier == "quick" else 60):
        tt = Tape(base + 7919 * (j + 1), preset={"k": [1]})
        yield tt, run(tt)


class _PinnedTape(Tape):
    """Record-mode tape whose first draw on stream 'h' is fixed (3 or 6 interpreters)."""

    def __init__(self, seed: int, first_h: int) -> None:
        super().__init__(seed)
        self._first_h = first_h

    def draw(self, n: int, stream: str = "w") -> int:
        if stream == "h" and self.pos.get("h", 0) == 0 and n > 1:
            self.pos["h"] = 1
            self.streams.setdefault("h", []).append(self._first_h % n)
            # keep the per-stream PRNG aligned with an unpinned tape
            r = self.rngs.get("h")
            if r is None:
                r = self.rngs["h"] = random.Random(f"{self.seed}/h")
            r.randrange(n)
            return self._first_h % n
        return super().draw(n, stream)
