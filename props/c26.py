"""C26 - the LRU cache behaves like a least-recently-used map under any use.

Two run kinds, chosen by the first draw of the workload stream:

* sequential: a history of 1-14 operations from the full method set on one or
  more subjects (copies / unpickled caches are carried forward), each step
  compared with the reference model.
* concurrent: 2-3 simulated threads x 1-3 operations from
  {get, [], []=, del, in, clear} on one cache, pre-empted at bytecode
  instruction granularity inside every LRUCache method; the recorded history
  is checked for linearizability against the sequential model.
"""
from __future__ import annotations

import copy
import pickle

from sim import threads as T
from sim.core import Outcome, digest
from sim.models import LRUModel, linearizable

ID = "C26"
LEVEL = "exploration"
RULE = (
    "seeded histories; sequential: 1-14 ops of the full LRUCache method set over 4 keys, capacities 1-4, "
    "compared step by step with a reference LRU model; concurrent: 2-3 simulated threads x 1-3 ops "
    "(get/[]/[]=/del/in/clear) pre-empted at bytecode-instruction boundaries inside LRUCache, 0-3 drawn "
    "pre-emptions + forced switches on lock contention, Wing-Gong linearizability check. A case is "
    "non-trivial when (concurrent) at least one context switch happened between an operation's invoke and "
    "return, or (sequential) at least one eviction or a copy/pickle subject was used; distinct = distinct "
    "digest of (workload, switch trace)."
    ' Sequential histories also store the identical object again, use unhashable keys (a plain list, and an unhashable object equal to a key in use: TypeError and an untouched cache are expected) and keep a live iterator while the cache is read.'
)
ASSUMPTIONS = [
    "GIL semantics: pre-emption at bytecode-instruction boundaries of LRUCache methods; C-level dict/deque operations are atomic",
    "threading.Lock is replaced by a SimLock with the same mutual-exclusion semantics",
    "linearizability is judged against a reference LRU model written for this check (sim/models.py)",
]
REAL_STUB = {
    "real": ["jinja2.utils.LRUCache (all methods)", "pickle", "copy"],
    "stub": ["threading.Lock -> SimLock", "thread scheduler (baton passing on sys.monitoring INSTRUCTION events)"],
}

KEYS = ("a", "b", "c", "d")
_setup_done = False


def setup() -> None:
    global _setup_done
    if _setup_done:
        return
    import sim
    import jinja2.utils as U

    T.install(sim.use_repo(), instr_classes=[U.LRUCache, __import__("functools").cached_property])
    U.Lock = T.SimLock
    T.neutralise_real_locks()
    T.install_threading_factories()
    _setup_done = True


class UnhashableEq(list):
    """Cannot be hashed, but compares EQUAL to one of the keys in use (like a set against a frozenset key or a
    bytearray against bytes): a lookup by it fails with TypeError and must leave the cache exactly as it was."""

    def __init__(self, like) -> None:
        super().__init__()
        self.like = like

    def __eq__(self, other):
        return other == self.like if not isinstance(other, UnhashableEq) else self.like == other.like

    def __ne__(self, other):
        return not self.__eq__(other)

    __hash__ = None  # type: ignore[assignment]

    def __repr__(self) -> str:
        return f"UnhashableEq({self.like!r})"


def _mk_cache(cap):
    from jinja2.utils import LRUCache

    c = LRUCache(cap)
    T.scan_replace_locks(c)
    return c


# ---------------------------------------------------------------------------
def _apply_real(c, op):
    """Apply op to the real cache; returns ("ok", value) / ("err", name)."""
    name = op[0]
    try:
        if name == "getitem":
            return ("ok", c[op[1]])
        if name == "get":
            return ("ok", c.get(op[1], *op[2:]))
        if name == "set":
            c[op[1]] = op[2]
            return ("ok", None)
        if name == "del":
            del c[op[1]]
            return ("ok", None)
        if name == "setdefault":
            return ("ok", c.setdefault(op[1], op[2]))
        if name == "in":
            return ("ok", op[1] in c)
        if name == "len":
            return ("ok", len(c))
        if name == "clear":
            return ("ok", c.clear())
        if name == "keys":
            return ("ok", tuple(c.keys()))
        if name == "iter":
            return ("ok", tuple(iter(c)))
        if name == "reversed":
            return ("ok", tuple(reversed(c)))
        if name == "values":
            return ("ok", tuple(c.values()))
        if name == "items":
            return ("ok", tuple(tuple(x) for x in c.items()))
        if name == "iterreads":
            # a live iterator while the cache is READ (reads refresh recency inside the cache): yields the keys
            # present when it was created, and never fails
            it = reversed(c) if op[1] else iter(c)
            got = []
            for k in it:
                got.append(k)
                if op[2] == 0:
                    c[k]
                elif op[2] == 1:
                    c.get(k)
                else:
                    k in c  # noqa: B015
            return ("ok", tuple(got))
    except T.SimAbort:
        raise
    except KeyError:
        return ("err", "KeyError")
    except BaseException as e:
        return ("err", type(e).__name__)
    raise ValueError(name)


SEQ_OPS = (
    "set", "getitem", "get", "del", "setdefault", "in", "len", "clear",
    "keys", "values", "items", "iter", "reversed", "copy", "copy.copy", "pickle", "iterreads", "unhashable",
)
SEQ_W = (8, 5, 4, 3, 3, 2, 1, 1, 1, 1, 2, 1, 1, 2, 1, 2, 1, 1)


def run_sequential(tape, out: Outcome) -> None:
    try:
        _run_sequential(tape, out)
    except T.SimAbort:
        raise
    except Exception as e:  # the subject raised where the harness observes it (items(), copy, pickle ...)
        out.violate(("seq", "raised-in-observation", type(e).__name__), error=repr(e)[:200], **out.decoded)


def _run_sequential(tape, out: Outcome) -> None:
    cap = 1 + tape.draw(4)
    nops = 1 + tape.draw(14)
    subjects = [(_mk_cache(cap), LRUModel(cap))]
    val = 0
    ops_dec = []
    out.decoded = {"kind": "sequential", "capacity": cap, "ops": ops_dec}
    evictions = 0
    extra_subjects = 0
    for i in range(nops):
        si = tape.draw(len(subjects)) if len(subjects) > 1 else 0
        c, m = subjects[si]
        name = SEQ_OPS[tape.weighted(SEQ_W)]
        if name in ("copy", "copy.copy", "pickle"):
            if name == "copy":
                c2 = c.copy()
            elif name == "copy.copy":
                c2 = copy.copy(c)
            else:
                proto = tape.draw(pickle.HIGHEST_PROTOCOL + 1)
                c2 = pickle.loads(pickle.dumps(c, proto))
            T.scan_replace_locks(c2)
            m2 = m.clone()
            subjects.append((c2, m2))
            extra_subjects += 1
            ops_dec.append([si, name])
            got = ("ok", (tuple(tuple(x) for x in c2.items()), c2.capacity))
            exp = ("ok", (m2.apply(("items",))[1], m2.cap))
            # the original must be unaffected, too
            if tuple(tuple(x) for x in c.items()) != m.apply(("items",))[1]:
                out.violate(("seq", name, "original-changed"), step=i, ops=ops_dec)
                return
        else:
            if name in ("getitem", "get", "del", "in"):
                op = (name, tape.pick(KEYS))
                if name == "get" and tape.draw(2):
                    op = op + ("dflt",)
            elif name == "iterreads":
                op = (name, tape.draw(2), tape.draw(3))
            elif name == "unhashable":
                # a key that cannot be hashed: the call fails with TypeError and leaves the cache exactly as it was
                sub = tape.pick(["set", "getitem", "get", "del", "setdefault", "in"])
                ukey = ["u"] if tape.draw(2) == 0 else UnhashableEq(tape.pick(KEYS))
                op = (sub, ukey) + ((0,) if sub in ("set", "setdefault") else ())
                name = sub
                out.count("seq_unhashable_key_ops")
            elif name in ("set", "setdefault"):
                val += 1
                k_ = tape.pick(KEYS)
                # one store in four writes back the very object the key already holds (a store is still a use)
                same = tape.draw(4) == 0 and k_ in m.map
                none_ = tape.draw(8) == 0  # None is a value like any other ("present with value None" is not "absent")
                op = (name, k_, m.map[k_] if same else (None if none_ else val))
                if same:
                    out.count("seq_store_of_identical_object")
            else:
                op = (name,)
            before = len(m.map)
            is_new = name in ("set", "setdefault") and not isinstance(op[1], list) and op[1] not in m.map
            ops_dec.append([si, *op])
            got = _apply_real(c, op)
            exp = m.apply(op)
            if is_new and before == m.cap:
                evictions += 1
        if got != exp:
            out.violate(("seq", name, "result"), step=i, ops=ops_dec, got=got, expected=exp)
            return
        items = tuple(tuple(x) for x in c.items())
        if items != m.apply(("items",))[1]:
            out.violate(("seq", name, "state"), step=i, ops=ops_dec, got=items,
                        expected=m.apply(("items",))[1])
            return
        if len(c) > cap or len(c) != len(m.map):
            out.violate(("seq", name, "len"), step=i, ops=ops_dec, got=len(c))
            return
    out.count("seq_runs")
    out.count("seq_evictions", evictions)
    out.count("seq_copy_or_pickle_subjects", extra_subjects)
    out.decoded = {"kind": "sequential", "capacity": cap, "ops": ops_dec}
    out.trace = digest(ops_dec)
    if evictions or extra_subjects:
        out.case = digest(["seq", cap, ops_dec])


CONC_OPS = ("set", "getitem", "get", "in", "del", "clear")
CONC_W = (6, 4, 3, 4, 3, 1)


def _gen_conc(tape):
    cap = 1 + tape.draw(3)
    nkeys = min(cap + 1, 3) if tape.draw(4) else 3
    keys = KEYS[:max(nkeys, 2)]
    val = 0
    prefix = []
    for _ in range(tape.draw(cap + 2)):
        val += 1
        prefix.append(("set", tape.pick(keys), val))
    nt = 2 + tape.draw(2)
    progs = []
    for _t in range(nt):
        ops = []
        for _ in range(1 + tape.draw(3)):
            name = CONC_OPS[tape.weighted(CONC_W)]
            if name == "set":
                val += 1
                ops.append((name, tape.pick(keys), val))
            elif name == "clear":
                ops.append((name,))
            else:
                ops.append((name, tape.pick(keys)))
        progs.append(ops)
    return cap, prefix, progs


def _exec_conc(tape, cap, prefix, progs, plan, out, serial=False):
    c = _mk_cache(cap)
    model = LRUModel(cap)
    for op in prefix:
        _apply_real(c, op)
        model.apply(op)
    sched = T.Sched(tape, step_cap=50_000)
    hist = []

    def body(tid, ops):
        def fn():
            for op in ops:
                rec = {"t": tid, "op": op, "inv": sched.stamp(), "ret": None, "res": None}
                hist.append(rec)
                rec["res"] = _apply_real(c, op)
                rec["ret"] = sched.stamp()
        return fn

    for tid, ops in enumerate(progs):
        sched.spawn(body(tid, ops), f"T{tid}")
    sched.plan(plan)
    if serial:
        sched.run_serial()
    else:
        sched.run()
    return c, model, sched, hist


def run_concurrent(tape, out: Outcome) -> None:
    cap, prefix, progs = _gen_conc(tape)
    # serial run (thread 0 to completion, then 1, ...) -> per-thread horizons
    from sim.tape import Tape

    c0, m0, s0, h0 = _exec_conc(Tape(streams={}), cap, prefix, progs, [], out, serial=True)
    if s0.abort:
        out.violate(("conc", "serial-" + s0.abort))
        return
    horizons = [st.local_step for st in s0.threads]
    d = tape.draw(4, "s")
    plan = []
    for _ in range(d):
        tid = tape.draw(len(progs), "s")
        h = max(horizons[tid], 1)
        step = 1 + tape.draw(h, "s")
        tgt = tape.draw(len(progs) - 1, "s")
        plan.append((tid, step, tgt))
    c, model, sched, hist = _exec_conc(tape, cap, prefix, progs, plan, out)
    out.count("conc_runs")
    out.count("preemptions_fired", sched.preempts_fired)
    out.count("lock_contention_blocks", sched.lock_blocks)
    out.count("steps", sched.gstep)
    dec = {
        "kind": "concurrent", "capacity": cap, "prefix": prefix, "threads": progs,
        "plan(tid,local_step,target)": plan, "switch_trace": sched.trace,
        "history": [[h["t"], list(h["op"]), h["inv"], h["ret"], h["res"]] for h in hist],
    }
    out.decoded = dec
    out.trace = digest([sched.trace, dec["history"], [st.local_step for st in sched.threads]])
    if sched.abort == "deadlock":
        out.violate(("conc", "deadlock"), **dec)
        return
    if sched.abort:
        raise T.HarnessError("run aborted: " + sched.abort)
    for st in sched.threads:
        if st.exc is not None:
            raise T.HarnessError(f"harness thread raised {st.exc!r}")
    for h in hist:
        if h["res"][0] == "err" and h["res"][1] != "KeyError":
            out.violate(("conc", "raised", h["res"][1], h["op"][0]), **dec)
            return
    # quiescent public-API invariants
    try:
        final_items = tuple(tuple(x) for x in c.items())
        keys = tuple(c.keys())
        ln = len(c)
        inset = {k for k in KEYS if k in c}
    except Exception as e:
        out.violate(("conc", "final-raised", type(e).__name__), **dec)
        return
    if ln > cap:
        out.violate(("conc", "over-capacity"), final=final_items, **dec)
        return
    if len(keys) != ln or set(keys) != inset or len(set(keys)) != len(keys):
        out.violate(("conc", "inconsistent-final"), final=final_items, keys=keys, length=ln, **dec)
        return
    ok, order = linearizable(model, hist, final_items)
    if not ok:
        out.violate(("conc", "nonlinearizable"), final=final_items, **dec)
        return
    if sched.preempts_fired or sched.lock_blocks:
        out.case = digest(["conc", cap, prefix, progs, sched.trace])
        if sched.lock_blocks:
            out.count("runs_with_lock_contention")


def run(tape) -> Outcome:
    setup()
    out = Outcome()
    kind = tape.draw(4)  # 0 -> sequential (simplest), 1..3 -> concurrent
    if kind == 0:
        run_sequential(tape, out)
    else:
        run_concurrent(tape, out)
    return out

from sim.core import guarded as _guarded  # noqa: E402

run = _guarded(run, 240.0)
