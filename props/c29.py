"""C29 - rendering is repeatable and does not modify its inputs.

Run kinds (first draw of the workload stream):

* history: ONE thread renders templates of a generated set 3-10 times in a drawn
  order through render / generate / stream / module (sync or async environment,
  small template caches so eviction and reloading happen mid-history),
  interleaved with get_template of other names.  After EVERY render a deep
  structural snapshot of the data, the environment globals and the template's
  globals is compared with the snapshot taken before the history.
* schedule: 2-4 simulated threads each perform such a history on the SAME
  environment and the SAME data objects, pre-empted at source-line granularity
  in jinja2.* and generated template code and at bytecode-instruction
  granularity inside LRUCache.

Oracle: every render equals the isolated reference for its (template, data,
entry point): fresh environment of the same configuration, fresh data, one
render; snapshots unchanged; no exception the reference did not raise.
"""
from __future__ import annotations

import gc

from sim import aioloop as A
from sim import isolate
from sim import threads as T
from sim.adata import Events, PrivateFault, make_async_data
from sim.core import native_text, unescaped, Outcome, digest, exc_key, internal_leak, scrub
from sim.envs import AE_MODES, CodeMemo, clear_process_caches, process_globals_changed
from sim.tape import Tape
from sim import workload as W
from sim.workload import Gen, make_data_seed, snapshot

ID = "C29"
LEVEL = "exploration"
RULE = (
    "seeded runs over generated template sets (cached import modules, includes with/without context, macros from modules, "
    "namespaces, loop.cycle/changed, async-variant filters incl. sum(start=<list from data>)); history runs: 3-10 renders "
    "(render/generate/stream/module) of 1-3 data sets in drawn order on one environment (sync or async, template cache size "
    "400/0/1/2) with a deep snapshot of data + environment globals + template globals after every render; schedule runs: 2-4 "
    "simulated threads x 1-3 renders on the same environment and the same data objects, 0-3 drawn pre-emptions at source-line "
    "boundaries of jinja2/template code (region-biased towards cache / loader / module / runtime code) and instruction "
    "boundaries inside LRUCache, template cache hot / code-memo warm / cold (compiling inside the run). Non-trivial = history "
    "with >= 2 renders of one (template, data) pair, or a schedule with >= 1 fired pre-emption or lock hand-over; distinct = "
    "digest(program, history or (thread programs, switch trace))."
    " Environment classes Environment / NativeEnvironment / SandboxedEnvironment (native container results are changed by the harness unless they are an input); a third of the schedule runs make one thread's k-th data call raise; references come from pristine interpreters in one run of 64 and in every run after a process-global container of jinja2 was seen changed; a run that does not return within 45 s is the violation no-termination."
)
ASSUMPTIONS = [
    "the isolated reference render of the same code (fresh environment, fresh data) is the oracle (differential)",
    "pre-emption only at source-line boundaries of jinja2.* / generated template code and at instruction boundaries inside LRUCache; GIL atomicity of C-level operations",
    "data callables are pure; programs tagged 'module_state' (deliberately mutate an object exported by a module imported without context) are classified as known finding KF-C29-1 only if a fresh Environment per render removes the mismatch",
]
REAL_STUB = {
    "real": ["jinja2 environment / template cache / loaders / runtime / compiled templates / filters", "asyncio (async environments, via SimLoop policy)"],
    "stub": ["thread scheduler (baton passing on sys.monitoring LINE/INSTRUCTION events)", "threading.Lock -> SimLock", "event loop scheduling for async environments (SimLoop)"],
}
BUDGET = {"quick": 45, "thorough": 600}
CACHE_SIZES = (400, 0, 1, 2)
SYNC_APIS = ["render", "generate", "stream", "module"]
_setup_done = False


def setup() -> None:
    global _setup_done
    if _setup_done:
        return
    import sim

    src = sim.use_repo()
    import asyncio  # noqa: F401
    import pprint  # noqa: F401

    import jinja2.constants  # noqa: F401
    import jinja2.debug  # noqa: F401
    import jinja2.ext  # noqa: F401
    import jinja2.meta  # noqa: F401
    import jinja2.nativetypes  # noqa: F401
    import jinja2.sandbox  # noqa: F401
    import jinja2.utils as U

    T.TOGGLE_LINE[0] = True
    T.install(src, line_events=True, instr_classes=[U.LRUCache, __import__("functools").cached_property])
    U.Lock = T.SimLock
    T.neutralise_real_locks()
    T.install_threading_factories()
    A.install_policy().factory = _loop_factory
    _setup_done = True
    isolate.start("props.c29")  # pre-warm a pristine interpreter for this worker's isolated references


class Cfg:
    def __init__(self, is_async, ae, lc, cache_size, memo, cls=0):
        self.is_async, self.ae, self.lc, self.cache_size, self.memo = is_async, ae, lc, cache_size, memo
        self.cls = cls  # 0 Environment, 1 NativeEnvironment, 2 SandboxedEnvironment

    def env(self, P):
        import jinja2
        from jinja2.nativetypes import NativeEnvironment
        from jinja2.sandbox import SandboxedEnvironment

        e = (jinja2.Environment, NativeEnvironment, SandboxedEnvironment)[self.cls](
            loader=jinja2.DictLoader(P.templates), enable_async=self.is_async, autoescape=AE_MODES[self.ae],
            cache_size=self.cache_size, extensions=["jinja2.ext.loopcontrols"] if self.lc else [],
            bytecode_cache=CodeMemo(("c29", self.is_async, self.ae, self.lc, self.cls)) if self.memo else None,
        )
        T.scan_replace_locks(e.cache) if e.cache is not None and not isinstance(e.cache, dict) else None
        if self.is_async:
            async def gf(x=0):
                return W.f1(x) + 1
        else:
            def gf(x=0):
                return W.f1(x) + 1
        if self.is_async:
            @jinja2.pass_context
            async def gcx(ctx, name):
                return ctx.resolve(name)
        else:
            @jinja2.pass_context
            def gcx(ctx, name):
                return ctx.resolve(name)
        e.globals["gcx"] = gcx
        e.globals["gso"] = W.StrObj("G!")
        e.globals["gf"] = gf
        e.globals["gn"] = 3
        e.globals["gd"] = {"k1": 1, "k2": [2]}
        return e


def _mk_data(seed, is_async, tape):
    if is_async:
        return make_async_data(tape, Events(), seed=seed)
    return make_data_seed(seed)


_LOOP_TAPE = [None]


def _loop_factory():
    return A.SimLoop(_LOOP_TAPE[0])


TG: dict = {}  # template-level globals of the current run: entry name -> value (fixed per name, as documented use)


def _render(env, entry, api, data, tape):
    """One render through the chosen entry point -> comparable key."""
    _LOOP_TAPE[0] = tape
    try:
        tg = TG.get(entry)
        tmpl = env.get_template(entry, globals={"tg": tg} if tg is not None else None)
        if api == 0:
            r = tmpl.render(data)
        elif api == 1:
            r = "".join(map(str, tmpl.generate(**data)))
        elif api == 2:
            st = tmpl.stream(data)
            st.enable_buffering(2)
            r = "".join(map(str, st))
        else:
            if env.is_async:
                r = tmpl.render(**data)
            else:
                r = str(tmpl.make_module(data))
        if not isinstance(r, str):
            # native environments return Python values; a container belongs to the caller, who may change it
            text = native_text(r)
            if id(r) in _container_ids([data, dict(env.globals), TG]):
                pass  # the template returned one of its inputs itself: not the caller's to change here
            elif isinstance(r, list):
                r.append("caller-owned")
            elif isinstance(r, dict):
                r["caller-owned"] = 1
            elif isinstance(r, set):
                r.add("caller-owned")
            r = text
        if internal_leak(r):
            return ("ok-with-template-internal-object", scrub(r)), tmpl
        return ("ok", scrub(r)), tmpl
    except T.SimAbort:
        raise
    except A.SimStall:
        raise
    except Exception as e:
        k = ("raised", exc_key(e))
        e.with_traceback(None)  # C-level: works for exception classes that forbid attribute assignment
        return k, None


def _container_ids(root) -> set:
    seen: set = set()
    stack = [root]
    while stack:
        o = stack.pop()
        if isinstance(o, (str, bytes, int, float, bool, type(None))) or id(o) in seen:
            continue
        seen.add(id(o))
        if isinstance(o, dict):
            stack.extend(o.values())
        elif isinstance(o, (list, tuple, set, frozenset)):
            stack.extend(o)
        else:
            d = getattr(o, "__dict__", None)
            if isinstance(d, dict):
                stack.extend(d.values())
    return seen


ISOLATED = [0]  # how many more references of this run are computed in pristine forked processes (sim/isolate.py)


class _P:
    def __init__(self, templates):
        self.templates = templates


def _reference_job(templates, cfgvals, entry, api, dseed, tg):
    """Runs in a pristine interpreter (sim/isolate.py): one render, nothing before it in the process."""
    A.install_policy().factory = _loop_factory
    TG.clear()
    TG.update(tg)
    cfg = Cfg(*cfgvals)
    zero = Tape(streams={})
    env = cfg.env(_P(templates))
    return _render(env, entry, api, _mk_data(dseed, cfg.is_async, zero), zero)[0]


def _reference(cfg, P, entry, api, dseed):
    if ISOLATED[0] > 0:
        # this run's references come from pristine interpreters
        ISOLATED[0] -= 1
        return isolate.call("props.c29", "_reference_job", P.templates,
                            (cfg.is_async, cfg.ae, cfg.lc, cfg.cache_size, False, cfg.cls), entry, api, dseed, dict(TG))
    zero = Tape(streams={})
    clear_process_caches()  # memo tables jinja keeps per process (lru_cache helpers) must not carry the run's entries over
    env = cfg.env(P)
    return _render(env, entry, api, _mk_data(dseed, cfg.is_async, zero), zero)[0]


def _snap_inputs(datas, env, tmpls):
    return {
        "data": [snapshot(d) for d in datas],
        "env.globals": snapshot(dict(env.globals)),
        "template.globals": {n: snapshot(dict(t.globals.maps[0])) if hasattr(t.globals, "maps") else snapshot(dict(t.globals))
                             for n, t in sorted(tmpls.items())},
    }


def _diff_snap(a, b):
    for k in a:
        if a[k] != b[k]:
            return k
    return None


# ---------------------------------------------------------------------------
def run_history(tape, out, P, cfg):
    nd = 1 + tape.draw(3)
    dseeds = [tape.draw(1 << 30, "d") for _ in range(nd)]
    n = 3 + tape.draw(8)
    ops = []
    for _ in range(n):
        if tape.draw(5) == 0:
            ops.append(("get", tape.pick(sorted(P.templates))))
        else:
            ops.append(("render", P.entry_points[tape.draw(len(P.entry_points))], tape.draw(4), tape.draw(nd)))

    def execute(fresh_env_each):
        env = cfg.env(P)
        datas = [_mk_data(s, cfg.is_async, tape) for s in dseeds]
        before = _snap_inputs(datas, env, {})
        tmpl_globals0 = {}
        results = []
        for op in ops:
            if fresh_env_each:
                env = cfg.env(P)
            if op[0] == "get":
                try:
                    env.get_template(op[1])
                except Exception:
                    pass
                results.append(None)
                continue
            _, entry, api, di = op
            res, tmpl = _render(env, entry, api, datas[di], tape)
            results.append(res)
            snap_t = {}
            if tmpl is not None:
                snap_t = {entry: tmpl}
            after = _snap_inputs(datas, env, {})
            changed = _diff_snap(before, after)
            if changed:
                return results, ("input-modified", changed, SYNC_APIS[api])
            if tmpl is not None and not fresh_env_each:
                g = snapshot(dict(tmpl.globals.maps[0])) if hasattr(tmpl.globals, "maps") else None
                if entry in tmpl_globals0 and tmpl_globals0[entry][0] is tmpl and tmpl_globals0[entry][1] != g:
                    return results, ("template-globals-modified", SYNC_APIS[api])
                tmpl_globals0.setdefault(entry, (tmpl, g))
        return results, None

    results, problem = execute(False)
    if problem is None:
        for i_, r_ in enumerate(results):
            if r_ is not None and r_[0] == "ok-with-template-internal-object":
                problem = ("template-internal-object-in-output", SYNC_APIS[ops[i_][2]])
                break
    refs = {}
    mism = None
    seen = {}
    repeated = 0
    for i, (op, res) in enumerate(zip(ops, results)):
        if op[0] != "render" or res is None:
            continue
        key = (op[1], op[2], dseeds[op[3]])
        if key not in refs:
            refs[key] = _reference(cfg, P, op[1], op[2], dseeds[op[3]])
        seen[key[0], key[2]] = seen.get((key[0], key[2]), 0) + 1
        if res != refs[key] and mism is None:
            mism = (i, res, refs[key])
    repeated = sum(1 for v in seen.values() if v >= 2)
    out.count("history_runs")
    out.count("history_renders", sum(1 for o in ops if o[0] == "render"))
    out.decoded = {
        "kind": "history", "templates": P.templates, "tags": sorted(P.tags), "config": vars(cfg), "data_seeds": dseeds,
        "template_globals": dict(TG),
        "ops": [list(o) if o[0] == "get" else ["render", o[1], SYNC_APIS[o[2]], f"data{o[3]}"] for o in ops],
        "results": results,
    }
    out.trace = digest([results])
    sig = None
    if problem:
        sig = problem
        detail = {"problem": problem}
    elif mism:
        i, got, want = mism
        first = not any(o[0] == "render" and (o[1], o[3]) == (ops[i][1], ops[i][3]) for o in ops[:i])
        sig = ("render-differs", "first-render" if first else "repeat-render", got[0], want[0])
        detail = {"op": i, "got": got, "expected": want}
    if sig:
        if "module_state" in P.tags:
            r2, p2 = execute(True)
            ok2 = p2 is None and all(
                r is None or op[0] != "render" or r == refs.get((op[1], op[2], dseeds[op[3]]), r)
                for op, r in zip(ops, r2))
            if ok2 and not problem:
                out.known = "KF-C29-1"
        out.violate(sig, **detail)
        return
    if repeated:
        out.case = digest(["hist", P.templates, ops, dseeds, vars(cfg)])


# ---------------------------------------------------------------------------
INTERESTING = ("lru", "shared", "template", "runtime", "lock")


def run_schedule(tape, out, P, cfg):
    warm = tape.weighted([12, 10, 1])  # 0 hot template cache, 1 code memo only, 2 cold (compile inside the run)
    nd = 1 + tape.draw(2)
    dseeds = [tape.draw(1 << 30, "d") for _ in range(nd)]
    nt = 2 + tape.draw(3)
    progs = []
    for _t in range(nt):
        ops = []
        for _ in range(1 + tape.draw(3)):
            ops.append((P.entry_points[tape.draw(len(P.entry_points))], tape.draw(4), tape.draw(nd)))
        progs.append(ops)
    cfg.memo = warm != 2
    # one thread's data may raise (its k-th call of a data callable): the OTHER threads must be unaffected, and
    # nobody may be left waiting for something the failed render was going to do
    fthread = tape.draw(nt + 3, "f") - 1  # tape value 0 = no fault (the simplest choice)
    if fthread < 0:
        fthread = nt + 1
    fk = 1 + tape.draw(5, "f")
    fstate = {"n": 0, "fired": False}

    def _wrap(fn):
        def w(*a, **k):
            st = T.current_thread()
            if st is not None and st.tid == fthread and not fstate["fired"]:
                fstate["n"] += 1
                if fstate["n"] == fk:
                    fstate["fired"] = True
                    raise PrivateFault("injected in thread %d" % fthread)
            return fn(*a, **k)
        w.__qualname__ = getattr(fn, "__qualname__", "w")
        return w

    def build():
        # process-global caches (lexer cache) start from the same state in every execution
        clear_process_caches()
        env = cfg.env(P)
        datas = [_mk_data(s, cfg.is_async, tape) for s in dseeds]
        fstate["n"], fstate["fired"] = 0, False
        if fthread < nt and not cfg.is_async:
            for d_ in datas:
                for name_ in ("f1", "f2"):
                    d_[name_] = _wrap(d_[name_])
            env.globals["gf"] = _wrap(env.globals["gf"])  # reachable from modules imported without context
        if warm != 2:
            env.lexer  # noqa: B018 - build the lexer outside the simulated run
        if warm != 2:
            # compile outside the simulated run (always, so a memo hit or miss changes no step)
            penv = cfg.env(P)
            for name in sorted(P.templates):
                try:
                    penv.get_template(name)
                except Exception:
                    pass
        if warm == 0:
            for name in sorted(P.templates):
                try:
                    env.get_template(name)
                except Exception:
                    pass
        return env, datas

    def execute(sched_tape, plan, serial, record_regions=False):
        env, datas = build()
        before = _snap_inputs(datas, env, {})
        sched = T.Sched(sched_tape, step_cap=CAP[0], line_level=True, record_regions=record_regions, wall_cap=90.0)
        results = [[None] * len(ops) for ops in progs]

        def body(tid, ops):
            def fn():
                for j, (entry, api, di) in enumerate(ops):
                    results[tid][j] = _render(env, entry, api, datas[di], sched_tape)[0]
            return fn

        for tid, ops in enumerate(progs):
            sched.spawn(body(tid, ops), f"T{tid}")
        sched.plan(plan)
        if serial:
            sched.run_serial()
        else:
            sched.run()
        after = _snap_inputs(datas, env, {})
        return sched, results, _diff_snap(before, after)

    CAP[0] = 6_000_000
    s0, r0, ch0 = execute(Tape(streams={}), [], True, record_regions=True)
    horizons = [st.local_step for st in s0.threads]
    if s0.abort == "stepcap" or sum(horizons) > 1_500_000:
        # a program too heavy for a simulated schedule (e.g. cache size 0 and a module re-compiled in every loop
        # iteration): not run, counted; the concurrent cap below is relative to the serial work, so it only fires for
        # a run that does far more than its serial execution (livelock), which is reported as a harness error
        out.count("schedule_runs_skipped_too_heavy")
        out.decoded = {"kind": "schedule", "skipped": "too heavy", "serial_steps": sum(horizons)}
        out.trace = digest(["skipped", sum(horizons)])
        return
    CAP[0] = 20 * sum(horizons) + 200_000
    d = tape.draw(4, "s")
    plan = []
    for _ in range(d):
        tid = tape.draw(nt, "s")
        regions = s0.threads[tid].regions or []
        h = max(horizons[tid], 1)
        if tape.draw(10, "s") < 7:
            idx = [i for i, r in enumerate(regions) if r in INTERESTING]
            if idx:
                step = 1 + idx[tape.draw(len(idx), "s")]
            else:
                step = 1 + tape.draw(h, "s")
        else:
            step = 1 + tape.draw(h, "s")
        plan.append((tid, step, tape.draw(nt - 1, "s")))
    refs: dict = {}
    plans = [plan]
    if P.features.get("micro"):
        # micro programs are ~100 steps long: besides the drawn plan, a spread of SINGLE pre-emptions of each of the
        # first two threads (switch to the next thread, which then runs until it ends or blocks) is tried as well
        for tid_ in range(min(nt, 2)):
            regs_ = s0.threads[tid_].regions or []
            # every step of the serial run that lies in filter / test / runtime-helper code (that is where a micro
            # program's shared helper lives), at most 48 per thread, evenly thinned beyond that
            idx_ = [i_ for i_, r_ in enumerate(regs_) if r_ == "runtime"]
            if len(idx_) > 48:
                idx_ = idx_[:: max(len(idx_) // 48, 1)][:48]
            for i_ in idx_:
                plans.append([(tid_, 1 + i_, 0)])

    def attempt(plan):
        sched, results, changed = execute(tape, plan, False)
        out.count("schedule_runs")
        out.count("preemptions_fired", sched.preempts_fired)
        out.count("lock_contention_blocks", sched.lock_blocks)
        out.count("steps", sched.gstep)
        out.count(["cache_hot", "cache_code_memo", "cache_cold_compile_in_run"][warm])
        for tid, step, _ in plan:
            regs = s0.threads[tid].regions or []
            if 0 < step <= len(regs):
                out.count("preempt_region_" + regs[step - 1])
        dec = {
            "kind": "schedule", "templates": P.templates, "tags": sorted(P.tags), "config": vars(cfg), "cache_mode": warm,
            "template_globals": dict(TG),
            "data_seeds": dseeds,
            "threads": [[[e, SYNC_APIS[a], f"data{di}"] for e, a, di in ops] for ops in progs],
            "plan(tid,local_step,target)": plan, "switch_trace": sched.trace[:60], "serial_horizons": horizons,
            "results": results,
        }
        out.decoded = dec
        out.trace = digest([sched.trace, results, [st.local_step for st in sched.threads]])
        if sched.abort == "deadlock":
            out.violate(("deadlock",), trace=sched.trace[-5:])
            return True
        if sched.abort:
            raise T.HarnessError("run aborted: " + sched.abort)
        for st in sched.threads:
            if st.exc is not None:
                if isinstance(st.exc, A.SimStall):
                    out.violate(("stall",), stall=str(st.exc))
                    return True
                raise T.HarnessError(f"harness thread raised {st.exc!r}")
        mism = None
        for tid, ops in enumerate(progs):
            for j, r_ in enumerate(results[tid]):
                if r_ is not None and r_[0] == "ok-with-template-internal-object" and not changed:
                    out.violate(("template-internal-object-in-output", SYNC_APIS[ops[j][1]]), thread=tid, op=j, got=r_)
                    return True
        for tid, ops in enumerate(progs):
            for j, (entry, api, di) in enumerate(ops):
                key = (entry, api, dseeds[di])
                if key not in refs:
                    refs[key] = _reference(cfg, P, entry, api, dseeds[di])
                if results[tid][j] != refs[key] and mism is None:
                    r_ = results[tid][j]
                    if tid == fthread and r_ and r_[0] == "raised" and r_[1][0] == "PrivateFault":
                        out.count("thread_fault_propagated")
                        continue  # the render that met the injected fault
                    mism = (tid, j, results[tid][j], refs[key])
        sig = None
        if changed:
            sig = ("input-modified", changed, "concurrent")
            detail = {"changed": changed}
        elif mism:
            tid, j, got, want = mism
            serial_ok = r0[tid][j] == want
            sig = ("render-differs", "concurrent" if serial_ok else "also-serial", got[0] if got else "none", want[0])
            detail = {"thread": tid, "op": j, "got": got, "expected": want, "serial_result": r0[tid][j]}
        if sig:
            if "module_state" in P.tags and not changed:
                # KF-C29-1 classifier: fresh Environment per render over the same loader and data objects
                env_, datas = build()
                ok2 = True
                for tid, ops in enumerate(progs):
                    for j, (entry, api, di) in enumerate(ops):
                        e2 = cfg.env(P)
                        r = _render(e2, entry, api, datas[di], Tape(streams={}))[0]
                        if r != refs[(entry, api, dseeds[di])]:
                            ok2 = False
                if ok2:
                    out.known = "KF-C29-1"
            if (out.known is None and mism and not changed and "module_eval_ctx" in P.tags and mism[2] and mism[2][0] == "ok"
                    and mism[3][0] == "ok" and not serial_ok_is_false(r0, mism)):
                # KF-C37-1 under threads: an {% autoescape %} block inside a macro of a module imported without context
                # switches the shared module context while another thread renders through it.  Only when EVERY
                # mismatching render differs from its reference in nothing but escaping, the serial execution of the same
                # thread programs is correct, and a fresh Environment per render removes the mismatch.
                only_escaping = all(
                    results[t_][j_] == refs[(e_, a_, dseeds[d_])] or (
                        results[t_][j_] and results[t_][j_][0] == "ok" and refs[(e_, a_, dseeds[d_])][0] == "ok")
                    for t_, ops_ in enumerate(progs) for j_, (e_, a_, d_) in enumerate(ops_))
                if only_escaping:
                    env_, datas = build()
                    ok2 = True
                    for tid, ops in enumerate(progs):
                        for j, (entry, api, di) in enumerate(ops):
                            e2 = cfg.env(P)
                            if _render(e2, entry, api, datas[di], Tape(streams={}))[0] != refs[(entry, api, dseeds[di])]:
                                ok2 = False
                    if ok2:
                        out.known = "KF-C37-1"
            out.violate(sig, **detail)
            return True
        if sched.preempts_fired or sched.lock_blocks:
            out.cases.append(digest(["sched", P.templates, progs, dseeds, sched.trace]))
        return False


    for i_, pl_ in enumerate(plans):
        out.evals = i_ + 1  # every executed schedule is one evaluation
        if attempt(pl_):
            return


CAP = [6_000_000]


def serial_ok_is_false(r0, mism) -> bool:
    """True if the SERIAL execution of the thread programs already shows the mismatch (then it is not an interleaving)."""
    tid, j, _got, want = mism
    return r0[tid][j] != want


def run(tape: Tape) -> Outcome:
    setup()
    clear_process_caches()  # a run must not depend on the runs before it in this worker
    out = Outcome()
    kind = tape.draw(4)  # 0 history, 1-2 schedule, 3 schedule over a micro program
    is_async = tape.draw(4) == 3 if kind else bool(tape.draw(2))
    ae = tape.draw(3)  # autoescape: off, on, by template name (callable)
    lc = bool(tape.draw(2))
    cache_size = CACHE_SIZES[tape.draw(len(CACHE_SIZES))]
    tagged_ok = tape.draw(8) == 7
    size = 1 + tape.draw(4)
    envcls = (0, 0, 0, 0, 0, 1, 2, 2)[tape.draw(8, "m")]
    if kind == 3:
        # two tiny templates using one filter / test / global in two ways: a schedule run is ~100 steps long, so a
        # drawn pre-emption lands INSIDE the helper both threads share (module-level state of a filter shows here)
        envcls = 0 if envcls == 1 else envcls
        P = W.micro_program(tape)
        out.count("micro_program_runs")
    else:
        P = Gen(tape, is_async=is_async, loopcontrols=lc, size=size, allow_module_state=tagged_ok,
                env_globals=True, template_globals=True, native=envcls == 1, pair_den=8).generate()
    TG.clear()
    # only the top-level template gets template-level globals: a template that is also included /
    # imported / extended elsewhere would (by documented design) keep them in the cache
    v = tape.draw(4)
    if v:
        TG["main"] = v
    v2 = tape.draw(4)
    if v2 and "base" in P.templates:
        TG["base"] = 10 + v2  # 'base' is only ever extended (the child's context is used then), never included/imported
    cfg = Cfg(is_async, ae, lc, cache_size, True, envcls)
    out.count("env_class_" + ("Environment", "NativeEnvironment", "SandboxedEnvironment")[envcls])
    ISOLATED[0] = 99 if tape.draw(64) == 63 and not __import__("os").environ.get("NOISO") else 0
    if process_globals_changed():
        # some earlier run of this worker left a process-global container of jinja2 different from a fresh
        # interpreter's: in-process references share that state, so take them from pristine interpreters
        ISOLATED[0] = 99
        out.count("runs_after_process_global_state_changed")  # one run in 64 takes ALL its references from pristine interpreters
    out.count("runs_with_pristine_process_references", 1 if ISOLATED[0] else 0)
    gc_was = gc.isenabled()
    gc.disable()
    try:
        if kind == 0:
            run_history(tape, out, P, cfg)
        else:
            run_schedule(tape, out, P, cfg)
    finally:
        if gc_was:
            gc.enable()
    return out

from sim.core import guarded as _guarded  # noqa: E402

run = _guarded(run)
