"""Deterministic thread scheduler: real OS threads, one runnable at a time.

Every simulated thread is a real ``threading.Thread`` parked on its own
semaphore; exactly one holds the baton.  Pre-emption points are

* ``sys.monitoring`` INSTRUCTION events on selected code objects (the cache
  classes under test), and
* ``sys.monitoring`` LINE events in ``jinja2.*`` and in generated template code,
* explicit ``sched.yield_point()`` calls from simulated syscalls / SimLock.

Which thread runs next is decided only by the pre-emption plan (drawn from the
tape before the run) and by tape draws at forced switches (blocked on a
SimLock, thread end).  A run is therefore a pure function of the tape and the
code under test.
"""
from __future__ import annotations

import os
import sys
import threading
import typing as t

mon = sys.monitoring
TOOL = 4
_E = mon.events

_tls = threading.local()
_installed = {"tool": False, "line": False, "instr_codes": set()}
_relevant_prefixes: list[str] = []
_relevant_exact: set[str] = {"<template>"}
_region_cache: dict[t.Any, str] = {}


class SimAbort(BaseException):
    """Raised inside simulated threads to unwind them (deadlock, step cap)."""


class HarnessError(Exception):
    pass


# ---------------------------------------------------------------------------
# monitoring plumbing
# ---------------------------------------------------------------------------
def _relevant(filename: str) -> bool:
    if filename in _relevant_exact:
        return True
    for p in _relevant_prefixes:
        if filename.startswith(p):
            return True
    return False


def _region_of(code) -> str:
    r = _region_cache.get(code)
    if r is None:
        fn = code.co_filename
        q = code.co_qualname
        if not fn.startswith(_relevant_prefixes[0] if _relevant_prefixes else "\0"):
            r = "template"
        else:
            base = os.path.basename(fn)
            if q.startswith("LRUCache."):
                r = "lru"
            elif q in (
                "Environment._load_template",
                "Environment.get_template",
                "Environment.select_template",
                "Environment.overlay",
                "get_lexer",
                "Template._get_default_module",
                "Template.make_module",
                "Template.module",
                "Environment.lexer",
                "get_spontaneous_environment",
                "BaseLoader.load",
            ) or q.startswith("Lexer.__init__"):
                r = "shared"
            elif base in ("runtime.py", "filters.py", "tests.py", "utils.py", "async_utils.py", "sandbox.py"):
                r = "runtime"
            elif base in ("lexer.py", "parser.py", "compiler.py", "idtracking.py", "nodes.py", "visitor.py", "optimizer.py"):
                r = "compile"
            else:
                r = "other"
        _region_cache[code] = r
    return r


def _cb_instruction(code, offset):
    st = getattr(_tls, "st", None)
    if st is None:
        return None
    st.sched._step(st, "lru")
    return None


_line_filter = None


def set_line_filter(fn) -> None:
    """Optional per-code-object filter (must depend on the code object only, so
    the enabled set is the same in every run and replay)."""
    global _line_filter
    _line_filter = fn


_filter_cache: dict = {}


def _cb_line(code, line):
    if not _relevant(code.co_filename):
        return mon.DISABLE
    if _line_filter is not None:
        v = _filter_cache.get(code)
        if v is None:
            v = _filter_cache[code] = bool(_line_filter(code))
        if v is False:
            return mon.DISABLE
    st = getattr(_tls, "st", None)
    if st is None:
        return None
    sched = st.sched
    if not sched.line_level:
        return None
    sched._step(st, _region_of(code) if sched.record_regions else None)
    return None


TOOL2 = 5
_deep_codes: list = []
_deep_on = [False]


def _cb_line_deep(code, line):
    st = getattr(_tls, "st", None)
    if st is None:
        return None
    sched = st.sched
    if sched.line_level and sched.deep:
        sched._step(st, "compile" if sched.record_regions else None)
    return None


def install_deep(functions) -> None:
    """Code objects that are pre-emption points only in 'deep' runs: LINE events under a second tool id,
    switched on/off per run with set_deep() (no per-line cost at all in the other runs)."""
    if mon.get_tool(TOOL2) is None:
        mon.use_tool_id(TOOL2, "jinja-verif-sim-deep")
        mon.register_callback(TOOL2, _E.LINE, _cb_line_deep)
    for f in functions:
        f = getattr(f, "__func__", f)
        code = getattr(f, "__code__", None)
        if code is None:
            continue
        for c in _walk_codes(code):
            if c not in _deep_codes:
                _deep_codes.append(c)


def module_functions(mod, exclude_classes: t.Iterable[type] = ()) -> list:
    """Every function defined in a module (top level, methods, static/class methods, property accessors):
    the set depends on the module's content only, so it is the same in every run and replay, and helpers added
    by a change under test are included without the harness knowing their names."""
    import types

    out: list = []

    def add(v):
        v = getattr(v, "__func__", v)
        if isinstance(v, property):
            for g in (v.fget, v.fset, v.fdel):
                if g is not None:
                    add(g)
            return
        v = getattr(v, "__wrapped__", v) if not hasattr(v, "__code__") else v
        if isinstance(getattr(v, "__code__", None), types.CodeType) and v.__code__.co_filename == getattr(mod, "__file__", None):
            out.append(v)

    for v in list(vars(mod).values()):
        if isinstance(v, type):
            if v.__module__ != mod.__name__ or v in tuple(exclude_classes):
                continue
            for w in list(vars(v).values()):
                add(w)
        else:
            add(v)
    return out


def set_deep(on: bool) -> None:
    if _deep_on[0] == on:
        return
    _deep_on[0] = on
    for c in _deep_codes:
        mon.set_local_events(TOOL2, c, _E.LINE if on else 0)


_line_on = [False]


TOGGLE_LINE = [False]


def _line_events(on: bool) -> None:
    """Global LINE events.  Default: on for the life of the process once installed (switching them makes CPython
    re-instrument every code object at its next execution; for a check whose every run is simulated that costs
    more than it saves).  With TOGGLE_LINE set (C29: a third of its runs and all reference renders / compilations
    are not simulated, and run 10x faster without the per-line callback) they are on only inside Sched.run()."""
    if not _installed["line"]:
        return
    if not TOGGLE_LINE[0]:
        on = True
    if _line_on[0] != on:
        mon.set_events(TOOL, _E.LINE if on else 0)
        _line_on[0] = on


def monitoring_off() -> None:
    """For forked reference children: no simulated threads will run here, drop all instrumentation."""
    try:
        mon.set_events(TOOL, 0)
        for c in list(_installed["instr_codes"]):
            mon.set_local_events(TOOL, c, 0)
        if mon.get_tool(TOOL2) is not None:
            for c in _deep_codes:
                mon.set_local_events(TOOL2, c, 0)
    except Exception:
        pass


def _walk_codes(code):
    yield code
    for c in code.co_consts:
        if hasattr(c, "co_code"):
            yield from _walk_codes(c)


def install(src_dir: str, *, line_events: bool = False, instr_classes: t.Iterable[type] = ()) -> None:
    """Enable monitoring.  Must be called before any simulated run; the set of
    enabled locations depends only on file names / classes, never on history."""
    if not _installed["tool"]:
        if mon.get_tool(TOOL) is None:
            mon.use_tool_id(TOOL, "jinja-verif-sim")
        mon.register_callback(TOOL, _E.INSTRUCTION, _cb_instruction)
        mon.register_callback(TOOL, _E.LINE, _cb_line)
        _installed["tool"] = True
    p = os.path.join(os.path.realpath(src_dir), "jinja2") + os.sep
    if p not in _relevant_prefixes:
        _relevant_prefixes.insert(0, p)
    for cls in instr_classes:
        for v in vars(cls).values():
            f = getattr(v, "__func__", v)
            code = getattr(f, "__code__", None)
            if code is None:
                continue
            for c in _walk_codes(code):
                if c not in _installed["instr_codes"]:
                    mon.set_local_events(TOOL, c, _E.INSTRUCTION)
                    _installed["instr_codes"].add(c)
    if line_events:
        _installed["line"] = True
        _line_events(False)


def add_relevant_filename(name: str) -> None:
    _relevant_exact.add(name)


# ---------------------------------------------------------------------------
# scheduler
# ---------------------------------------------------------------------------
class SimThread:
    __slots__ = (
        "sched", "tid", "name", "fn", "sem", "state", "local_step", "blocked_on",
        "exc", "result", "aborted", "preempt", "thread", "regions", "pid_",
    )

    def __init__(self, sched: "Sched", tid: int, fn, name: str) -> None:
        self.sched = sched
        self.tid = tid
        self.name = name
        self.fn = fn
        self.sem = threading.Semaphore(0)
        self.state = "runnable"
        self.local_step = 0
        self.blocked_on = None
        self.exc: BaseException | None = None
        self.result = None
        self.aborted = False
        self.preempt: dict[int, int] = {}
        self.thread: threading.Thread | None = None
        self.regions: list[str] | None = None
        self.pid_ = tid


class Sched:
    """One simulated run of several threads."""

    def __init__(self, tape, *, stream: str = "s", step_cap: int = 200_000,
                 wall_cap: float = 20.0, line_level: bool = False,
                 record_regions: bool = False) -> None:
        self.tape = tape
        self.stream = stream
        self.threads: list[SimThread] = []
        self.gstep = 0
        self.evseq = 0
        self.step_cap = step_cap
        self.wall_cap = wall_cap
        self.abort: str | None = None
        self.trace: list[tuple] = []
        self.switches = 0
        self.preempts_fired = 0
        self.main_sem = threading.Semaphore(0)
        self.running: SimThread | None = None
        self.line_level = line_level
        self.record_regions = record_regions
        self.lock_blocks = 0
        self.deep = True  # code objects the line filter marks "deep" are pre-emption points only when set

    # -- building --------------------------------------------------------
    def spawn(self, fn, name: str | None = None) -> SimThread:
        st = SimThread(self, len(self.threads), fn, name or f"T{len(self.threads)}")
        if self.record_regions:
            st.regions = []
        self.threads.append(st)
        return st

    def plan(self, plan: list[tuple[int, int, int]]) -> None:
        """plan: list of (tid, local_step, target_choice)."""
        for tid, step, tgt in plan:
            if 0 <= tid < len(self.threads):
                self.threads[tid].preempt[step] = tgt

    def stamp(self) -> int:
        """Global event sequence number for invoke/return records."""
        self.evseq += 1
        return self.evseq

    # -- running ---------------------------------------------------------
    def run(self) -> None:
        if not self.threads:
            return
        _line_events(self.line_level)
        try:
            self._run()
        finally:
            _line_events(False)

    def _run(self) -> None:
        carriers = _get_carriers(len(self.threads))
        for st, c in zip(self.threads, carriers):
            st.sem = c.sem
            c.st = st
        first = self.threads[self.tape.draw(len(self.threads), self.stream)]
        self.trace.append(("start", first.tid))
        self.running = first
        first.sem.release()
        if not self.main_sem.acquire(timeout=self.wall_cap):
            self.abort = "wallcap"
            _poison_carriers()
            raise HarnessError("wall cap exceeded in simulated thread run")

    def run_serial(self) -> None:
        """Run every thread's function to completion, one after the other, in
        the calling thread (no OS threads, no switching).  Gives the serial
        outcome and per-thread step horizons cheaply."""
        prev = getattr(_tls, "st", None)
        _line_events(self.line_level)
        try:
            for st in self.threads:
                _tls.st = st
                try:
                    st.result = st.fn()
                except SimAbort:
                    st.aborted = True
                except BaseException as e:
                    st.exc = e
                st.state = "done"
        finally:
            _tls.st = prev
            _line_events(False)

    def _body(self, st: SimThread) -> None:
        # runs on a carrier thread, after the first hand-over of the baton
        _tls.st = st
        try:
            if self.abort is None:
                st.result = st.fn()
        except SimAbort:
            st.aborted = True
        except BaseException as e:  # outcome of the code under test
            st.exc = e
        finally:
            _tls.st = None
            st.state = "done"
            self._on_exit(st)

    def _candidates(self, exclude: SimThread | None = None) -> list[SimThread]:
        return [x for x in self.threads if x.state == "runnable" and x is not exclude]

    def _on_exit(self, st: SimThread) -> None:
        if self.abort is not None:
            rest = [x for x in self.threads if x.state != "done"]
            if rest:
                self.running = rest[0]
                rest[0].sem.release()
            else:
                self.main_sem.release()
            return
        cand = self._candidates()
        if cand:
            nxt = cand[self.tape.draw(len(cand), self.stream)]
            self.trace.append(("exit", st.tid, nxt.tid, self.gstep))
            self.switches += 1
            self.running = nxt
            nxt.sem.release()
            return
        blocked = [x for x in self.threads if x.state == "blocked"]
        if blocked:
            self.abort = "deadlock"
            self.trace.append(("deadlock", tuple(x.tid for x in blocked)))
            self.running = blocked[0]
            blocked[0].sem.release()
            return
        self.main_sem.release()

    def _switch(self, me: SimThread, target: SimThread) -> None:
        self.switches += 1
        self.running = target
        target.sem.release()
        me.sem.acquire()
        if self.abort is not None:
            raise SimAbort()

    def _step(self, st: SimThread, region: str | None) -> None:
        if self.abort is not None:
            raise SimAbort()
        st.local_step += 1
        self.gstep += 1
        if self.gstep > self.step_cap:
            self.abort = "stepcap"
            raise SimAbort()
        if st.regions is not None:
            st.regions.append(region or "?")
        tgt = st.preempt.get(st.local_step)
        if tgt is not None:
            cand = self._candidates(exclude=st)
            if cand:
                nxt = cand[tgt % len(cand)]
                self.preempts_fired += 1
                self.trace.append(("pre", st.tid, st.local_step, nxt.tid))
                self._switch(st, nxt)

    def yield_point(self, region: str = "sys") -> None:
        """Explicit pre-emption point (simulated syscalls)."""
        st = getattr(_tls, "st", None)
        if st is None or st.sched is not self:
            return
        self._step(st, region)

    def block_current(self, st: SimThread, on) -> None:
        """Current thread cannot proceed; run somebody else or report deadlock."""
        st.state = "blocked"
        st.blocked_on = on
        self.lock_blocks += 1
        cand = self._candidates(exclude=st)
        if not cand:
            self.abort = "deadlock"
            self.trace.append(("deadlock", (st.tid,)))
            st.state = "runnable"
            raise SimAbort()
        nxt = cand[self.tape.draw(len(cand), self.stream)]
        self.trace.append(("block", st.tid, st.local_step, nxt.tid))
        self._switch(st, nxt)


class _Carrier:
    """A reusable OS thread that carries one simulated thread per run (thread
    creation is the dominant cost of a short run, and is slow under load)."""

    def __init__(self, k: int) -> None:
        self.sem = threading.Semaphore(0)
        self.st: SimThread | None = None
        self.dead = False
        self.thread = threading.Thread(target=self._loop, name=f"sim-carrier-{k}", daemon=True)
        self.thread.start()

    def _loop(self) -> None:
        while True:
            self.sem.acquire()
            if self.dead:
                return
            st = self.st
            st.sched._body(st)


_carriers: list[_Carrier] = []
_carrier_pid = 0


def _get_carriers(n: int) -> list[_Carrier]:
    global _carriers, _carrier_pid
    if _carrier_pid != os.getpid():  # threads do not survive fork
        _carriers = []
        _carrier_pid = os.getpid()
    while len(_carriers) < n:
        _carriers.append(_Carrier(len(_carriers)))
    return _carriers[:n]


def _poison_carriers() -> None:
    global _carriers
    for c in _carriers:
        c.dead = True
    _carriers = []


def current_thread() -> SimThread | None:
    return getattr(_tls, "st", None)


class SimLock:
    """Drop-in for threading.Lock under the simulated scheduler."""

    def __init__(self) -> None:
        self.owner = None
        self.contended = 0

    def acquire(self, blocking: bool = True, timeout: float = -1) -> bool:
        st = getattr(_tls, "st", None)
        if st is None:
            if self.owner is not None:
                raise HarnessError("SimLock held while used outside the simulation")
            self.owner = "ext"
            return True
        sched = st.sched
        sched._step(st, "lock")
        while self.owner is not None:
            if not blocking:
                return False
            self.contended += 1
            sched.block_current(st, self)
        self.owner = st
        return True

    def release(self) -> None:
        if self.owner is None:
            raise RuntimeError("release unlocked lock")
        owner = self.owner
        self.owner = None
        if owner != "ext":
            for x in owner.sched.threads:
                if x.state == "blocked" and x.blocked_on is self:
                    x.state = "runnable"
                    x.blocked_on = None

    def locked(self) -> bool:
        return self.owner is not None

    def __enter__(self):
        self.acquire()
        return self

    def __exit__(self, *a):
        self.release()


class SimRLock:
    """Drop-in for threading.RLock under the simulated scheduler."""

    def __init__(self) -> None:
        self.owner = None
        self.count = 0

    def acquire(self, blocking: bool = True, timeout: float = -1) -> bool:
        st = getattr(_tls, "st", None)
        me = st if st is not None else "ext"
        if self.owner is me:
            self.count += 1
            return True
        if st is None:
            if self.owner is not None:
                raise HarnessError("SimRLock held while used outside the simulation")
            self.owner, self.count = "ext", 1
            return True
        sched = st.sched
        sched._step(st, "lock")
        while self.owner is not None:
            if not blocking:
                return False
            sched.block_current(st, self)
        self.owner, self.count = st, 1
        return True

    def release(self) -> None:
        if self.owner is None:
            raise RuntimeError("cannot release un-acquired lock")
        self.count -= 1
        if self.count == 0:
            owner = self.owner
            self.owner = None
            if owner != "ext":
                for x in owner.sched.threads:
                    if x.state == "blocked" and x.blocked_on is self:
                        x.state = "runnable"
                        x.blocked_on = None

    def __enter__(self):
        self.acquire()
        return self

    def __exit__(self, *a):
        self.release()


class SimEvent:
    """Drop-in for threading.Event: a wait() that nobody can ever satisfy is a detected deadlock, not a hang."""

    def __init__(self) -> None:
        self._flag = False
        self._sched = None

    def is_set(self) -> bool:
        return self._flag

    isSet = is_set

    def set(self) -> None:
        self._flag = True
        st = getattr(_tls, "st", None)
        sched = st.sched if st is not None else self._sched
        if sched is not None:
            for x in sched.threads:
                if x.state == "blocked" and x.blocked_on is self:
                    x.state = "runnable"
                    x.blocked_on = None

    def clear(self) -> None:
        self._flag = False

    def wait(self, timeout: float | None = None) -> bool:
        st = getattr(_tls, "st", None)
        if st is None:
            return self._flag
        sched = st.sched
        self._sched = sched
        sched._step(st, "lock")
        while not self._flag:
            if timeout is not None and not sched._candidates(exclude=st):
                return False  # nobody left who could set it: the timeout expires
            sched.block_current(st, self)
        return True


_real_threading: dict = {}


def install_threading_factories() -> None:
    """``threading.Lock() / RLock() / Event()`` called by jinja2 code (or by any code running on a simulated thread)
    give simulator primitives, so a synchronisation object that a change under test introduces is scheduled - and its
    deadlocks detected - like the rest, instead of really blocking the one OS thread that holds the baton.  Everything
    else in the process keeps the real primitives."""
    import threading as TH

    if _real_threading:
        return
    _real_threading.update(Lock=TH.Lock, RLock=TH.RLock, Event=TH.Event)

    def _sim_wanted() -> bool:
        if getattr(_tls, "st", None) is not None:
            return True
        try:
            fn = sys._getframe(2).f_code.co_filename
        except ValueError:
            return False
        return bool(_relevant_prefixes) and fn.startswith(_relevant_prefixes[0])

    def Lock(*a, **k):
        return SimLock() if _sim_wanted() else _real_threading["Lock"](*a, **k)

    def RLock(*a, **k):
        return SimRLock() if _sim_wanted() else _real_threading["RLock"](*a, **k)

    def Event(*a, **k):
        return SimEvent() if _sim_wanted() else _real_threading["Event"](*a, **k)

    TH.Lock, TH.RLock, TH.Event = Lock, RLock, Event
    # names bound by ``from threading import Lock / RLock / Event`` in the modules under test
    repl = {id(_real_threading["Lock"]): Lock, id(_real_threading["RLock"]): RLock, id(_real_threading["Event"]): Event}
    lock_t, rlock_t = type(_real_threading["Lock"]()), type(_real_threading["RLock"]())
    for mname, mod in list(sys.modules.items()):
        if mod is None or not (mname == "jinja2" or mname.startswith("jinja2.")):
            continue
        for k_, v_ in list(vars(mod).items()):
            f_ = repl.get(id(v_))
            if f_ is not None and v_ in (_real_threading["Lock"], _real_threading["RLock"], _real_threading["Event"]):
                setattr(mod, k_, f_)
                continue
            # synchronisation OBJECTS created when the module was imported (module-level locks / events): a simulated
            # thread parked while holding a real one would block the OS thread that carries the baton
            if isinstance(v_, lock_t):
                setattr(mod, k_, SimLock())
            elif isinstance(v_, rlock_t):
                setattr(mod, k_, SimRLock())
            elif isinstance(v_, _real_threading["Event"]):
                setattr(mod, k_, SimEvent())
            elif isinstance(v_, type) and getattr(v_, "__module__", None) == mname:
                for ck_, cv_ in list(vars(v_).items()):
                    if isinstance(cv_, lock_t):
                        setattr(v_, ck_, SimLock())
                    elif isinstance(cv_, rlock_t):
                        setattr(v_, ck_, SimRLock())
                    elif isinstance(cv_, _real_threading["Event"]):
                        setattr(v_, ck_, SimEvent())


def neutralise_real_locks() -> int:
    """Replace real locks on pre-existing LRUCache instances (e.g. the lexer
    cache built at import time) so a parked thread can never hold one."""
    import gc

    from jinja2.utils import LRUCache

    n = 0
    for o in gc.get_objects():
        if isinstance(o, LRUCache):
            if not isinstance(o.__dict__.get("_wlock"), SimLock):
                o.__dict__["_wlock"] = SimLock()
                n += 1
    return n


def scan_replace_locks(obj) -> int:
    """Replace any real lock found in an object's __dict__ by a SimLock."""
    lock_types = (type(threading.Lock()), type(threading.RLock()))
    n = 0
    d = getattr(obj, "__dict__", None)
    if d is None:
        return 0
    for k, v in list(d.items()):
        if isinstance(v, lock_types):
            d[k] = SimLock()
            n += 1
    return n
