"""In-memory file system, clock and memcached client with a fault plan.

Installed by assigning jinja's module globals (``jinja2.bccache.{os,tempfile,open}``,
``jinja2.loaders.{os,open}``) and by patching ``os.remove`` on the real ``os``
module with a path-prefix dispatch (``FileSystemBytecodeCache.clear`` imports it
lazily).  All simulated paths live under ``/simfs/``.

Every entry point is a numbered *syscall event*: a yield point for the
"process" scheduler and a point at which the fault plan may

* crash the calling process before/after the event (``SimCrash``, a
  BaseException).  A crash is process death: from then on every call from that
  process raises SimCrash again, so jinja's own clean-up handlers cannot run.
* raise an OSError instead (ENOSPC with a short write, EIO, EACCES,
  FileNotFoundError ...).

Power loss and external damage are applied by the harness between events
through ``truncate`` / ``put``.
"""
from __future__ import annotations

import errno
import io
import os as _real_os
import posixpath

ROOT = "/simfs/"
CURRENT: "SimFS | None" = None


class SimCrash(BaseException):
    """The simulated process died at a syscall."""


class Inode:
    __slots__ = ("data", "mtime", "writer", "ino", "dirty_from")

    def __init__(self, ino: int, mtime: float, writer=None) -> None:
        self.data = bytearray()
        self.mtime = mtime
        self.writer = writer
        self.ino = ino
        self.dirty_from: int | None = None  # smallest offset written since the last sync


class SimClock:
    def __init__(self) -> None:
        self.now = 1_000_000.0
        self.covered = 0.0

    def advance(self, d: float) -> None:
        self.now += d
        self.covered += abs(d)


class SimFS:
    def __init__(self, clock: SimClock | None = None, sched=None) -> None:
        self.clock = clock or SimClock()
        self.names: dict[str, Inode] = {}
        self.dirs: set[str] = {ROOT.rstrip("/")}
        self.next_ino = 1
        self.nevents = 0
        self.log: list[tuple] = []
        self.faults: dict[int, tuple] = {}
        self.fired: list[tuple] = []
        self.dead: set = set()
        self.inline_pid = 0
        self.sched = sched
        self.tmp_counter = 0
        self.tmp_names = None  # callable giving temp-file name fragments
        self.reads: dict = {}  # pid -> list of (path, writer) opened for reading in the current op
        self.renames_since_sync: list[tuple[str, str]] = []
        self.write_buffer = 8192
        self.writer_tags: dict = {}
        self.last_injected_error: BaseException | None = None
        self.injected: list[BaseException] = []

    # -- process identity ------------------------------------------------------
    def pid(self):
        from . import threads as T

        st = T.current_thread()
        if st is not None and getattr(st.sched, "fs", None) is self:
            return getattr(st, "pid_", st.tid)
        return self.inline_pid

    # -- events ------------------------------------------------------------------
    def event(self, op: str, path: str = "", size: int = 0):
        """Number the event, yield to the scheduler, apply the fault plan.
        Returns the fault tuple to be applied by the caller (errors) or None."""
        pid = self.pid()
        if pid in self.dead:
            raise SimCrash()
        if self.sched is not None:
            self.sched.yield_point("sys")
            if pid in self.dead:
                raise SimCrash()
        self.nevents += 1
        idx = self.nevents
        self.log.append((idx, pid, op, self._kind(path), size))
        f = self.faults.get(idx)
        if f is None:
            return None
        kind = f[0]
        if kind == "crash-before":
            self.fired.append((idx, kind, op))
            self.dead.add(pid)
            raise SimCrash()
        if kind == "crash-after":
            return f
        if kind == "error":
            return f
        return None

    def after(self, f, idx_op: str) -> None:
        if f is not None and f[0] == "crash-after":
            self.fired.append((self.nevents, "crash-after", idx_op))
            self.dead.add(self.pid())
            raise SimCrash()

    def _err(self, f, op: str, default_errno: int, path: str):
        """Raise the injected OSError for fault f (kind 'error')."""
        en = f[1] if len(f) > 1 and f[1] else default_errno
        exc_cls = {errno.ENOENT: FileNotFoundError, errno.EACCES: PermissionError}.get(en, OSError)
        e = exc_cls(en, _real_os.strerror(en), path)
        self.fired.append((self.nevents, "error", op, errno.errorcode.get(en, str(en))))
        self.last_injected_error = e
        self.injected.append(e)
        raise e

    @staticmethod
    def _kind(path: str) -> str:
        if path.endswith(".tmp"):
            return "tmp"
        if path.endswith(".cache"):
            return "entry"
        return "file" if path else ""

    # -- helpers for the harness (no events) ---------------------------------------
    def put(self, path: str, data: bytes, writer=None, mtime: float | None = None) -> None:
        ino = Inode(self.next_ino, self.clock.now if mtime is None else mtime, writer)
        self.next_ino += 1
        ino.data[:] = data
        self.names[path] = ino

    def get(self, path: str) -> bytes | None:
        ino = self.names.get(path)
        return bytes(ino.data) if ino is not None else None

    def truncate(self, path: str, n: int) -> None:
        ino = self.names.get(path)
        if ino is not None:
            del ino.data[n:]

    def unlink(self, path: str) -> None:
        self.names.pop(path, None)

    def listing(self, d: str) -> list[str]:
        d = d.rstrip("/") + "/"
        return sorted(p[len(d):] for p in self.names if p.startswith(d) and "/" not in p[len(d):])

    def sync(self) -> None:
        for ino in self.names.values():
            ino.dirty_from = None
        self.renames_since_sync.clear()

    # -- the syscalls -----------------------------------------------------------------
    def open(self, path, mode="r", buffering=-1, encoding=None, errors=None, newline=None):
        path = _real_os.fspath(path)
        if not str(path).startswith(ROOT):
            raise RuntimeError(f"simulated code opened a real path: {path!r}")
        binary = "b" in mode
        if "r" in mode and "+" not in mode:
            f = self.event("open-r", path)
            if f is not None and f[0] == "error":
                self._err(f, "open-r", errno.EACCES, path)
            ino = self.names.get(path)
            if ino is None:
                if path in self.dirs:
                    raise IsADirectoryError(errno.EISDIR, "Is a directory", path)
                raise FileNotFoundError(errno.ENOENT, "No such file or directory", path)
            self.reads.setdefault(self.pid(), []).append((path, ino.writer, ino.ino))
            self.after(f, "open-r")
            raw = SimRawReader(self, ino, path)
            buf = io.BufferedReader(raw, buffer_size=8192)
            if binary:
                return buf
            return io.TextIOWrapper(buf, encoding=encoding, errors=errors, newline=newline)
        if "w" in mode:
            f = self.event("open-w", path)
            if f is not None and f[0] == "error":
                self._err(f, "open-w", errno.EACCES, path)
            ino = Inode(self.next_ino, self.clock.now, None)
            self.next_ino += 1
            ino.dirty_from = 0
            self.names[path] = ino
            self.after(f, "open-w")
            raw = SimRawWriter(self, ino, path)
            buf = io.BufferedWriter(raw, buffer_size=self.write_buffer)
            if binary:
                return buf
            return io.TextIOWrapper(buf, encoding=encoding, errors=errors, newline=newline)
        raise RuntimeError(f"unsupported open mode {mode!r}")

    def replace(self, src, dst) -> None:
        f = self.event("replace", dst)
        if f is not None and f[0] == "error":
            self._err(f, "replace", errno.ENOENT, src)
        ino = self.names.get(src)
        if ino is None:
            raise FileNotFoundError(errno.ENOENT, "No such file or directory", src)
        del self.names[src]
        self.names[dst] = ino
        self.renames_since_sync.append((src, dst))
        self.after(f, "replace")

    def remove(self, path) -> None:
        f = self.event("remove", path)
        if f is not None and f[0] == "error":
            self._err(f, "remove", errno.EACCES, path)
        if path not in self.names:
            raise FileNotFoundError(errno.ENOENT, "No such file or directory", path)
        del self.names[path]
        self.after(f, "remove")

    def listdir(self, d) -> list[str]:
        f = self.event("listdir", "")
        if f is not None and f[0] == "error":
            self._err(f, "listdir", errno.EIO, d)
        r = self.listing(d)
        self.after(f, "listdir")
        return r

    def isfile(self, path) -> bool:
        f = self.event("stat", path)
        r = path in self.names
        self.after(f, "stat")
        return r

    def getmtime(self, path) -> float:
        f = self.event("getmtime", path)
        if f is not None and f[0] == "error":
            self._err(f, "getmtime", errno.EIO, path)
        ino = self.names.get(path)
        if ino is None:
            raise FileNotFoundError(errno.ENOENT, "No such file or directory", path)
        self.after(f, "getmtime")
        return ino.mtime

    def named_temporary_file(self, mode="w+b", dir=None, prefix="tmp", suffix="", delete=True, **kw):
        self.tmp_counter += 1
        frag = self.tmp_names() if self.tmp_names else f"{self.tmp_counter:06d}"
        path = posixpath.join(dir or ROOT + "tmp", f"{prefix}{frag}{suffix}")
        f = self.event("mktemp", path)
        if f is not None and f[0] == "error":
            self._err(f, "mktemp", errno.ENOSPC, path)
        ino = Inode(self.next_ino, self.clock.now, self.writer_tag())
        self.next_ino += 1
        ino.dirty_from = 0
        self.names[path] = ino
        self.after(f, "mktemp")
        raw = SimRawWriter(self, ino, path)
        return SimNamedTemp(io.BufferedWriter(raw, buffer_size=self.write_buffer), path)

    def writer_tag(self):
        return self.writer_tags.get(self.pid())


class SimRawReader(io.RawIOBase):
    def __init__(self, fs: SimFS, ino: Inode, path: str) -> None:
        self.fs, self.ino, self.path, self.pos = fs, ino, path, 0

    def readable(self) -> bool:
        return True

    def readinto(self, b) -> int:
        f = self.fs.event("read", self.path, len(b))
        if f is not None and f[0] == "error":
            self.fs._err(f, "read", errno.EIO, self.path)
        data = self.ino.data[self.pos:self.pos + len(b)]
        n = len(data)
        b[:n] = data
        self.pos += n
        self.fs.after(f, "read")
        return n


class SimRawWriter(io.RawIOBase):
    def __init__(self, fs: SimFS, ino: Inode, path: str) -> None:
        self.fs, self.ino, self.path = fs, ino, path
        self.owner = fs.pid()

    def writable(self) -> bool:
        return True

    def write(self, b) -> int:
        b = bytes(b)
        if self.owner in self.fs.dead:
            # buffered data of a dead process never reaches the disk (this is
            # reached from the abandoned BufferedWriter's destructor)
            return len(b)
        f = self.fs.event("write", self.path, len(b))
        if f is not None and f[0] == "error":
            short = f[2] if len(f) > 2 else 0
            k = min(len(b), short)
            if k:
                self.ino.data += b[:k]
            self.fs._err(f, "write", errno.ENOSPC, self.path)
        if self.ino.dirty_from is None:
            self.ino.dirty_from = len(self.ino.data)
        self.ino.data += b
        self.ino.mtime = self.fs.clock.now
        self.fs.after(f, "write")
        return len(b)

    def close(self) -> None:
        if self.closed:
            return
        if self.owner in self.fs.dead:
            super().close()
            return
        try:
            f = self.fs.event("close", self.path)
            if f is not None and f[0] == "error":
                self.fs._err(f, "close", errno.EIO, self.path)
            self.fs.after(f, "close")
        finally:
            super().close()


class SimNamedTemp:
    """What jinja uses of tempfile.NamedTemporaryFile(delete=False)."""

    def __init__(self, f, name: str) -> None:
        self._f = f
        self.name = name

    def write(self, b):
        return self._f.write(b)

    def flush(self):
        return self._f.flush()

    def close(self):
        return self._f.close()

    def __enter__(self):
        return self

    def __exit__(self, *a):
        self.close()
        return False


# ---------------------------------------------------------------------------
# module stand-ins
# ---------------------------------------------------------------------------
class _SimPath:
    def __getattr__(self, name):
        return getattr(posixpath, name)

    @staticmethod
    def isfile(p):
        return CURRENT.isfile(_real_os.fspath(p))

    @staticmethod
    def getmtime(p):
        return CURRENT.getmtime(_real_os.fspath(p))

    @staticmethod
    def exists(p):
        return CURRENT.isfile(_real_os.fspath(p))

    @staticmethod
    def isdir(p):
        p = _real_os.fspath(p)
        if isinstance(p, str) and p.startswith(ROOT):
            return not CURRENT.isfile(p)  # every simulated path that is not a file is a directory
        return posixpath.isdir(p)


class SimOS:
    """Stand-in for the ``os`` module inside jinja2.bccache / jinja2.loaders."""

    path = _SimPath()
    name = "posix"
    sep = "/"

    def __getattr__(self, name):
        return getattr(_real_os, name)

    @staticmethod
    def remove(p):
        return CURRENT.remove(_real_os.fspath(p))

    unlink = remove

    @staticmethod
    def replace(a, b):
        return CURRENT.replace(_real_os.fspath(a), _real_os.fspath(b))

    rename = replace

    @staticmethod
    def listdir(d):
        return CURRENT.listdir(_real_os.fspath(d))

    @staticmethod
    def fspath(p):
        return _real_os.fspath(p)

    @staticmethod
    def walk(top, followlinks=False):
        top = _real_os.fspath(top).rstrip("/")
        files = CURRENT.listing(top)
        yield top, [], files


class SimTempfile:
    @staticmethod
    def NamedTemporaryFile(*a, **kw):
        return CURRENT.named_temporary_file(*a, **kw)

    @staticmethod
    def gettempdir():
        return ROOT + "tmp"


def sim_open(path, *a, **kw):
    return CURRENT.open(path, *a, **kw)


_installed = False
_orig_remove = _real_os.remove


def _remove_dispatch(path, *a, **kw):
    p = _real_os.fspath(path)
    if isinstance(p, str) and p.startswith(ROOT):
        return CURRENT.remove(p)
    return _orig_remove(path, *a, **kw)


def install() -> None:
    """Point jinja's file-system seams at the simulator (idempotent)."""
    global _installed
    if _installed:
        return
    import jinja2.bccache as B
    import jinja2.loaders as L

    simos = SimOS()
    B.os = simos
    B.tempfile = SimTempfile()
    B.open = sim_open
    L.os = simos
    L.open = sim_open
    _real_os.remove = _remove_dispatch
    _installed = True


def use(fs: SimFS) -> SimFS:
    global CURRENT
    CURRENT = fs
    return fs


# ---------------------------------------------------------------------------
# memcached
# ---------------------------------------------------------------------------
class MemcacheError(Exception):
    pass


class SimMemcache:
    """dict-backed client with faults: raise on get/set, truncated value, lost set, eviction.
    ``fs`` supplies process identity, writer tags and the scheduler yield."""

    def __init__(self, fs: "SimFS | None" = None) -> None:
        self.fs = fs
        self.store: dict[str, bytes] = {}
        self.meta: dict[str, object] = {}
        self.nevents = 0
        self.faults: dict[int, tuple] = {}
        self.fired: list[tuple] = []
        self.log: list[tuple] = []
        self.reads: dict = {}
        self.last_injected_error: BaseException | None = None
        self.injected: list[BaseException] = []

    def _pid(self):
        return self.fs.pid() if self.fs is not None else 0

    def _event(self, op: str, key: str):
        if self.fs is not None and self.fs.sched is not None:
            self.fs.sched.yield_point("sys")
        self.nevents += 1
        self.log.append((self.nevents, op, len(self.store.get(key, b""))))
        return self.faults.get(self.nevents)

    def _note_read(self, key: str) -> None:
        self.reads.setdefault(self._pid(), []).append((key, self.meta.get(key)))

    def get(self, key: str):
        f = self._event("get", key)
        if f is not None:
            self.fired.append((self.nevents, f[0], "get"))
            if f[0] == "raise":
                self.last_injected_error = MemcacheError("injected get failure")
                self.injected.append(self.last_injected_error)
                raise self.last_injected_error
            if f[0] == "evict":
                self.store.pop(key, None)
                return None
            if f[0] == "truncate":
                v = self.store.get(key)
                if v is not None:
                    self._note_read(key)
                    return v[: f[1] % (len(v) + 1)]
        v = self.store.get(key)
        if v is not None:
            self._note_read(key)
        return v

    def set(self, key: str, value: bytes, timeout=None) -> None:
        f = self._event("set", key)
        if f is not None:
            self.fired.append((self.nevents, f[0], "set"))
            if f[0] == "raise":
                self.last_injected_error = MemcacheError("injected set failure")
                self.injected.append(self.last_injected_error)
                raise self.last_injected_error
            if f[0] in ("lost", "evict"):
                return
            if f[0] == "truncate":
                value = value[: f[1] % (len(value) + 1)]
        self.store[key] = bytes(value)
        self.meta[key] = self.fs.writer_tag() if self.fs is not None else None
