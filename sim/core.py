"""Shared types: the outcome of one simulated run."""
from __future__ import annotations

import hashlib
import json
import re
import typing as t


class Outcome:
    """Result of one simulated run.

    sig      None if the property held; else a short structured violation
             signature (tuple of str/int) that must be stable across replays.
    known    id of a known finding if the structured classifier matched
    trace    digest of the full event trace (determinism self-test)
    case     digest identifying the explored case for the distinct count, or
             None when the run was trivial by the property's rule
    counters rare-event / fault-kind counters (ints, summed over runs)
    decoded  human-readable decoding (ops, schedule, faults, observed/expected)
    """

    __slots__ = ("sig", "known", "detail", "trace", "case", "counters", "decoded", "sim_time", "evals", "cases")

    def __init__(self) -> None:
        self.sig: tuple | None = None
        self.known: str | None = None
        self.detail: dict = {}
        self.trace: str = ""
        self.case: str | None = None
        self.counters: dict[str, int] = {}
        self.decoded: dict = {}
        self.sim_time: float = 0.0
        self.evals: int = 1  # executions this run stands for (C30: one per compilation)
        self.cases: list[str] = []  # further distinct non-trivial case digests of this run

    def count(self, key: str, n: int = 1) -> None:
        self.counters[key] = self.counters.get(key, 0) + n

    def violate(self, sig: tuple, **detail) -> None:
        if self.sig is None:
            self.sig = tuple(sig)
            self.detail = detail


class RunTimeout(BaseException):
    """Code under test did not come back within the limit of a simulated run."""


def guarded(run_fn, seconds: float = 45.0):
    """Wrap a property's run(tape): a run that does not return within `seconds` of real time (code under test that
    loops forever outside the simulated scheduler - renders of a history, references) ends as the violation
    ("no-termination",) instead of stalling the worker until the pool's 600 s watchdog calls it a harness error.
    Only in a process's main thread (signals); the timer keeps re-firing every 5 s in case something swallows it."""
    import signal
    import threading

    def wrapper(tape):
        if threading.current_thread() is not threading.main_thread():
            return run_fn(tape)

        def on_alarm(*_a):
            raise RunTimeout()

        old = signal.signal(signal.SIGALRM, on_alarm)
        signal.setitimer(signal.ITIMER_REAL, seconds, 5.0)
        try:
            return run_fn(tape)
        except RunTimeout:
            try:  # simulated threads of this run may still be spinning: never reuse their carrier OS threads
                import sys as _sys

                T_ = _sys.modules.get("sim.threads")
                if T_ is not None:
                    T_._poison_carriers()
            except Exception:
                pass
            out = Outcome()
            out.violate(("no-termination",), limit_s=seconds)
            out.decoded = {"note": "the run did not return within the time limit", "limit_s": seconds}
            out.trace = "timeout"
            return out
        except Exception as e:
            # an exception that escapes a run from INSIDE the code under test (innermost frame in the jinja2 tree
            # being checked) while the harness was not observing - environment construction, warm-up, quiescence
            # checks - is an outcome of that code, not a harness problem
            if type(e).__name__ == "HarnessError":
                raise
            tb = e.__traceback__
            last = None
            while tb is not None:
                last = tb.tb_frame.f_code.co_filename
                tb = tb.tb_next
            import os as _os
            import sys as _sys

            j2 = _sys.modules.get("jinja2")
            root = _os.path.dirname(_os.path.realpath(j2.__file__)) + _os.sep if j2 is not None else None
            if root is None or last is None or not _os.path.realpath(last).startswith(root):
                raise
            out = Outcome()
            out.violate(("raised-outside-observation", type(e).__name__), error=scrub(repr(e))[:300])
            out.decoded = {"note": "code under test raised where the harness only sets up or warms up", "error": scrub(repr(e))[:300]}
            out.trace = "raised-outside-observation"
            return out
        finally:
            signal.setitimer(signal.ITIMER_REAL, 0)
            signal.signal(signal.SIGALRM, old)

    wrapper.__wrapped__ = run_fn
    return wrapper


def digest(obj) -> str:
    return hashlib.sha256(
        json.dumps(obj, sort_keys=True, default=repr).encode()
    ).hexdigest()[:16]


_ADDR = re.compile(r"0[xX][0-9a-fA-F]{6,}")
_INTERNAL = re.compile(r"<(?:async_)?generator object \S*(?:root|block_\w+)\.<locals>\.\S+ at 0x", re.I)


def internal_leak(s: str) -> bool:
    """The text contains the repr of a generator created by compiled template code (e.g. a macro that returned
    its un-run generator): never legitimate output, and not repeatable (it embeds a memory address)."""
    return bool(_INTERNAL.search(s))


def scrub(s: str) -> str:
    """Remove memory addresses from a message."""
    return _ADDR.sub("0x?", s)


def safe_repr(o, depth: int = 0) -> str:
    """Description of a native render result that never calls into data objects (their __str__ / __repr__ may be
    fault points or contain addresses)."""
    if isinstance(o, (str, bytes, int, float, bool, type(None), complex)):
        return repr(o)
    if depth > 4:
        return "..."
    if isinstance(o, (list, tuple)):
        return type(o).__name__ + "(" + ", ".join(safe_repr(x, depth + 1) for x in o) + ")"
    if isinstance(o, dict):
        return "dict(" + ", ".join(sorted(safe_repr(k, depth + 1) + ": " + safe_repr(v, depth + 1) for k, v in o.items())) + ")"
    if isinstance(o, (set, frozenset)):
        return "set(" + ", ".join(sorted(safe_repr(x, depth + 1) for x in o)) + ")"
    return "<" + type(o).__name__ + ">"


def native_text(r) -> str:
    return r if isinstance(r, str) else "native:" + safe_repr(r)


def unescaped(s: str) -> str:
    """HTML-unescape until nothing changes: two texts that differ ONLY in how often / whether they were escaped
    have the same image."""
    import html

    for _ in range(6):
        t_ = html.unescape(s)
        if t_ == s:
            break
        s = t_
    return s


def exc_key(e: BaseException) -> tuple:
    return (type(e).__name__, scrub(str(e)))
