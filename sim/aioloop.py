"""Virtual-time asyncio event loop whose every scheduling choice comes from the tape.

``SimLoop`` subclasses ``asyncio.BaseEventLoop`` (real Tasks, Futures, timers)
and overrides

* ``time()``        - a virtual clock; when nothing is ready it jumps to the next timer
* ``_run_once()``   - moves due timers to the ready queue and runs exactly ONE ready
                      handle, chosen by ``tape.draw(len(ready), stream)`` (0 = oldest =
                      stock asyncio order)
* asyncgen hooks    - records every async generator whose code is template code
* ``create_task``   - deterministic task names (default names leak a process-global counter)

No selector, no self-pipe, no threads: ``_process_events`` / ``_write_to_self`` are no-ops.
"""
from __future__ import annotations

import asyncio
import heapq
import sys
import typing as t
import weakref


_ENGINE_DIR: list = [None]


def _engine_dir() -> str:
    if _ENGINE_DIR[0] is None:
        import os

        import jinja2

        _ENGINE_DIR[0] = os.path.dirname(os.path.realpath(jinja2.__file__)) + os.sep
    return _ENGINE_DIR[0]


def _template_or_engine_code(code) -> bool:
    """Async generators the property speaks about: compiled template code (root, blocks, loop filters) and
    generators the ENGINE itself creates to drive a template (any jinja2 module except filters.py, whose async
    filter generators - map, select, ... - are not in the property's list and are only counted)."""
    fn = code.co_filename
    if fn == "<template>":
        return True
    return fn.startswith(_engine_dir()) and not fn.endswith(("filters.py",))


def _gen_name(code) -> str:
    return code.co_name if code.co_filename == "<template>" else "engine:" + code.co_name


class SimStall(Exception):
    """Nothing ready and no timer pending while the loop was asked to run."""


class SimLoop(asyncio.BaseEventLoop):
    def __init__(self, tape, stream: str = "a", is_template_code=None, step_cap: int = 200_000) -> None:
        super().__init__()
        self._vtime = 0.0
        self.tape = tape
        self.stream = stream
        self.trace: list[str] = []
        self.steps = 0
        self.step_cap = step_cap
        self.task_steps: dict[str, int] = {}
        self._ntasks = 0
        self.is_template_code = is_template_code or _template_or_engine_code
        self.agens: list[tuple[weakref.ref, str]] = []  # template async generators seen at first iteration
        self.agens_other = 0
        self.finalized: list[str] = []  # template generators that reached the GC finalizer hook
        self.finalized_other = 0
        self.exc_reports: list[str] = []
        self.finalizer_tasks_destroyed = 0
        self.on_step: t.Callable[[str, int], None] | None = None
        self.choices = 0  # draws with more than one ready handle
        self.set_exception_handler(self._record_exc)

    # -- clock / plumbing ------------------------------------------------
    def time(self) -> float:
        return self._vtime

    def _process_events(self, event_list) -> None:
        pass

    def _write_to_self(self) -> None:
        pass

    def _record_exc(self, loop, context) -> None:
        msg = context.get("message", "")
        exc = context.get("exception")
        task = context.get("task")
        if task is not None and "destroyed" in msg and "async_generator_a" in repr(task):
            # the aclose() task CPython's finalizer hook schedules for a dropped,
            # unfinished async generator.  For template generators the finalizer
            # hook itself is already recorded (self.finalized); for data
            # generators this is outside the property.
            self.finalizer_tasks_destroyed += 1
            return
        self.exc_reports.append(f"{msg} {type(exc).__name__ if exc else ''}".strip())

    def create_task(self, coro, *, name=None, context=None):
        self._ntasks += 1
        if name is None:
            name = f"anon{self._ntasks}"
        return super().create_task(coro, name=name, context=context)

    # -- async generator tracking ------------------------------------------
    def _asyncgen_firstiter_hook(self, agen) -> None:
        code = agen.ag_code
        if self.is_template_code(code):
            try:
                tk = asyncio.current_task(self)
                owner = tk.get_name() if tk is not None else None
            except RuntimeError:
                owner = None
            self.agens.append((weakref.ref(agen), _gen_name(code), owner))
        else:
            self.agens_other += 1
        super()._asyncgen_firstiter_hook(agen)

    def _asyncgen_finalizer_hook(self, agen) -> None:
        code = agen.ag_code
        if self.is_template_code(code):
            self.finalized.append(_gen_name(code))
        else:
            self.finalized_other += 1
        super()._asyncgen_finalizer_hook(agen)

    def open_template_generators(self, task: str | None = None) -> list[str]:
        """Names of template async generators that were started (by `task`, if given) and are not finished."""
        out = []
        for ref, name, owner in self.agens:
            g = ref()
            if g is not None and g.ag_frame is not None and (task is None or owner == task):
                out.append(name)
        return out

    def close(self) -> None:
        if not self.is_closed() and not hasattr(self, "open_at_shutdown"):
            # closed without shutdown_asyncgens(): whatever is open now will never be closed by anybody
            self.open_at_close = self.open_template_generators()
        super().close()

    async def shutdown_asyncgens(self) -> None:
        # whatever is still open now was not closed by the render itself
        self.open_at_shutdown = self.open_template_generators()
        await super().shutdown_asyncgens()

    # -- the scheduler -----------------------------------------------------
    @staticmethod
    def _owner(handle) -> str:
        cb = handle._callback
        obj = getattr(cb, "__self__", None)
        if isinstance(obj, asyncio.Task):
            return obj.get_name()
        if isinstance(obj, asyncio.Future):
            return "fut"
        return getattr(cb, "__name__", "cb")

    def _run_once(self) -> None:
        sched = self._scheduled
        while sched and sched[0]._cancelled:
            self._timer_cancelled_count -= 1
            h = heapq.heappop(sched)
            h._scheduled = False
        if not self._ready:
            if not sched:
                if self._stopping:
                    return
                raise SimStall("no ready handle and no timer")
            when = sched[0]._when
            if when > self._vtime:
                self._vtime = when
        end = self._vtime + self._clock_resolution
        while sched and sched[0]._when < end:
            h = heapq.heappop(sched)
            h._scheduled = False
            if not h._cancelled:
                self._ready.append(h)
            else:
                self._timer_cancelled_count -= 1
        ready = self._ready
        n = len(ready)
        if n == 0:
            return
        if n > 1:
            i = self.tape.draw(n, self.stream)
            self.choices += 1
        else:
            i = 0
        h = ready[i]
        del ready[i]
        if h._cancelled:
            return
        self.steps += 1
        if self.steps > self.step_cap:
            raise SimStall("step cap exceeded")
        owner = self._owner(h)
        self.trace.append(owner)
        self._current_handle = h
        try:
            h._run()
        finally:
            self._current_handle = None
        k = self.task_steps.get(owner, 0) + 1
        self.task_steps[owner] = k
        if self.on_step is not None:
            self.on_step(owner, k)
        h = None


class SimPolicy(asyncio.DefaultEventLoopPolicy):
    """Makes ``asyncio.run`` inside jinja (sync API of an async environment) use SimLoop."""

    def __init__(self) -> None:
        super().__init__()
        self.factory: t.Callable[[], SimLoop] | None = None
        self.created: list[SimLoop] = []

    def new_event_loop(self):
        if self.factory is None:
            raise RuntimeError("SimPolicy has no loop factory for this run")
        loop = self.factory()
        self.created.append(loop)
        return loop


_policy: SimPolicy | None = None


def install_policy() -> SimPolicy:
    global _policy
    if _policy is None:
        _policy = SimPolicy()
        asyncio.set_event_loop_policy(_policy)
    return _policy


GATE_DELAYS = (0, 0, 1, 5, 60, 3600)


async def gate(tape, stream: str = "g") -> None:
    """A suspension point in data code; its virtual delay comes from the tape."""
    d = GATE_DELAYS[tape.draw(len(GATE_DELAYS), stream)]
    await asyncio.sleep(d)


def run_loop(loop: SimLoop, main_coro, name: str = "main"):
    """Run main_coro to completion on loop; returns (result, exception)."""
    asyncio.set_event_loop(loop)
    try:
        task = loop.create_task(main_coro, name=name)
        try:
            loop.run_until_complete(task)
        except BaseException as e:  # noqa: BLE001 - outcome
            if not task.done():
                raise
            return None, e
        return task.result(), None
    finally:
        asyncio.set_event_loop(None)


def close_loop(loop: SimLoop) -> None:
    """Let finalizer-scheduled aclose() tasks finish, cancel leftovers, shut
    down async generators, close."""

    async def drain() -> None:
        me = asyncio.current_task()
        for _ in range(20):
            await asyncio.sleep(0)
            pend = [t_ for t_ in asyncio.all_tasks(loop) if t_ is not me and not t_.done()]
            if not pend:
                return
            _done, still = await asyncio.wait(pend, timeout=1e6)  # virtual seconds
            for t_ in still:
                t_.cancel()

    try:
        asyncio.set_event_loop(loop)
        loop.run_until_complete(loop.create_task(drain(), name="drain"))
        loop.run_until_complete(loop.shutdown_asyncgens())
        loop.run_until_complete(loop.create_task(drain(), name="drain2"))
    finally:
        asyncio.set_event_loop(None)
        loop.close()
