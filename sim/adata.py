"""Data for async renders: the plain values of workload.make_data plus awaitable
callables and async iterables that suspend through simulator gates and count
*data events* so that a fault can be injected at the k-th one."""
from __future__ import annotations

import asyncio

from . import workload as W
from .aioloop import GATE_DELAYS


class PrivateFault(Exception):
    """Injected exception; unrelated to any lookup / type error jinja handles."""


class PrivateAbort(BaseException):
    """Injected BaseException."""


class PrivateValueError(ValueError):
    pass


class PrivateRuntimeError(RuntimeError):
    pass


class PrivateOSError(OSError):
    pass


class PrivateArithmeticError(ZeroDivisionError):
    pass


class GuardedFault(Exception):
    """An exception class that forbids attribute assignment (like a frozen dataclass / attrs exception): the
    engine must hand it on as it is, not decorate it through setattr."""

    def __init__(self, *a) -> None:
        super().__init__(*a)
        object.__setattr__(self, "_sealed", True)

    def __setattr__(self, name, value):
        if getattr(self, "_sealed", False):
            raise TypeError(f"cannot assign to field {name!r} of a sealed exception")
        object.__setattr__(self, name, value)


class PrivateTypeError(TypeError):
    """A TypeError raised INSIDE a data callable / async callable / iterator step.  Only injected at call-like
    events: a TypeError out of __len__ / __iter__ / item access is a documented fallback signal, one raised by the
    body of a callable is the data's exception like any other."""


CALL_ONLY = (PrivateTypeError,)
# (a TypeError out of a plain ATTRIBUTE access propagates too: Environment.getattr / getitem only turn it into
# undefined for ITEM access; so "attr" events qualify, "item" / "len" / "iter" ones do not)
# ("len" is deliberately absent: CPython's own list() / length-hint machinery swallows a TypeError out of __len__)
# ("str": no engine code treats a TypeError out of a value's string conversion as a signal - the `format` filter, string
# concatenation and output all hand it on)
CALL_KINDS = ("call", "acall", "gcall", "agen", "anext", "next", "gcoro", "gen", "attr", "str")


# exceptions a data object may raise; none of them is a documented lookup signal
# (AttributeError / LookupError / TypeError become undefined in some contexts, StopIteration from a callable too)
FAULT_CLASSES = (PrivateFault, PrivateAbort, PrivateValueError, PrivateRuntimeError, PrivateOSError, PrivateArithmeticError,
                 GuardedFault, PrivateTypeError)


def call_only(exc) -> bool:
    return isinstance(exc, CALL_ONLY) or getattr(type(exc), "SIM_CALL_ONLY", False)


_JINJA_FAULTS = None


def jinja_fault_classes() -> tuple:
    """Exception classes of the ENGINE'S OWN hierarchy raised by data: a lookup helper that raises ``UndefinedError`` for an
    unknown key, a widget whose method renders a nested strict template, a helper that raises ``TemplateRuntimeError``.
    They are the data's exceptions like any other; injected at call-like events only (``select_template`` documents that
    an ``UndefinedError`` while *loading* a candidate means "try the next one").  Created lazily: jinja2 must come from the
    tree under test."""
    global _JINJA_FAULTS
    if _JINJA_FAULTS is None:
        import jinja2

        class PrivateUndefinedError(jinja2.UndefinedError):
            SIM_CALL_ONLY = True

        class PrivateTemplateRuntimeError(jinja2.TemplateRuntimeError):
            SIM_CALL_ONLY = True

        _JINJA_FAULTS = (PrivateUndefinedError, PrivateTemplateRuntimeError)
    return _JINJA_FAULTS


class Events:
    """Counts data events of one render and raises at the k-th if asked to."""

    def __init__(self, fault_at: int = 0, exc: BaseException | None = None) -> None:
        self.n = 0
        self.fault_at = fault_at
        self.exc = exc
        self.fired = False
        self.fired_kind: str | None = None
        self.log: list[str] = []

    def ev(self, kind: str) -> None:
        self.n += 1
        if self.n == self.fault_at and self.exc is not None:
            if call_only(self.exc) and kind not in CALL_KINDS:
                return  # this fault class is only meaningful inside a call
            self.fired = True
            self.fired_kind = kind
            raise self.exc


class AIter:
    """Re-iterable async iterable; each step is a data event and a gate."""

    def __init__(self, items, events: Events, tape, stream: str) -> None:
        self._sim_items = items
        self._sim_events = events
        self._sim_tape = tape
        self._sim_stream = stream

    def __aiter__(self):
        return _AIterator(self)


class _AIterator:
    def __init__(self, src: AIter) -> None:
        self.src = src
        self.i = 0

    def __aiter__(self):
        return self

    async def __anext__(self):
        s = self.src
        if self.i >= len(s._sim_items):
            raise StopAsyncIteration
        s._sim_events.ev("anext")
        d = GATE_DELAYS[s._sim_tape.draw(len(GATE_DELAYS), s._sim_stream)]
        await asyncio.sleep(d)
        v = s._sim_items[self.i]
        self.i += 1
        return v


def make_async_data(tape, events: Events, *, gate_stream: str = "g", data_stream: str = "d",
                    seed: int | None = None) -> dict:
    data = W.make_data(tape, data_stream) if seed is None else W.make_data_seed(seed)

    def f1(x):
        events.ev("call")
        return W.f1(x)

    def f2(x):
        events.ev("call")
        return W.f2(x)

    async def af1(x):
        events.ev("acall")
        await asyncio.sleep(GATE_DELAYS[tape.draw(len(GATE_DELAYS), gate_stream)])
        return W.f1(x)

    async def af2(x):
        events.ev("acall")
        await asyncio.sleep(GATE_DELAYS[tape.draw(len(GATE_DELAYS), gate_stream)])
        return W.f2(x)

    items = list(data["l1"])

    async def ag1():
        for v in items:
            events.ev("agen")
            await asyncio.sleep(GATE_DELAYS[tape.draw(len(GATE_DELAYS), gate_stream)])
            yield v

    import types

    @types.coroutine
    def gc1(x=0):
        # generator-based coroutine: awaitable although its type is the plain generator type
        events.ev("gcoro")
        yield from asyncio.sleep(GATE_DELAYS[tape.draw(len(GATE_DELAYS), gate_stream)]).__await__()
        return W.f1(x) + 3

    def sg1():
        for v in items:
            events.ev("gen")
            yield v

    class EvStr:
        def __str__(self_) -> str:
            events.ev("str")
            return str(data["s2"]) + "!"

        def __repr__(self_) -> str:
            return "EvStr()"

    class AObj:
        """An object with an AWAITABLE attribute (an async property / a lazily loaded relation): in async mode
        `map(attribute=...)` awaits what the attribute lookup returns."""

        def __init__(self_, v) -> None:
            self_.v = v

        @property
        def ap(self_):
            async def get():
                events.ev("acall")
                await asyncio.sleep(GATE_DELAYS[tape.draw(len(GATE_DELAYS), gate_stream)])
                return self_.v

            return get()

        def __repr__(self_) -> str:
            return f"AObj({self_.v!r})"

    data["alo"] = [AObj(v) for v in items[:3]]
    data.update(
        sg1=sg1, so1=EvStr(),
        gc1=gc1, f1=f1, f2=f2, af1=af1, af2=af2,
        ai1=AIter(items, events, tape, gate_stream),
        ai2=AIter(list(data["ld"]), events, tape, gate_stream),
        ag1=ag1,
    )
    return data
