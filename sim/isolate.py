"""Truly isolated reference renders.

The differential oracles compare a simulated run with "the same render done in
isolation".  Done in the worker process itself, such a reference shares every
process-global of jinja with the thousands of runs that came before it (policy
dicts, module-level memo tables, caches a change to jinja may add), so state
that leaks between renders can pollute the reference exactly like the run and
hide the violation.

A *pristine* reference is computed by a freshly started interpreter that has
imported jinja and done nothing else; it serves exactly one job and exits.
Each worker keeps one such interpreter pre-warmed (started and importing while
the worker simulates), so the latency of a pristine reference is the render
itself; the CPU cost is one interpreter start (about 0.2 s) per reference,
which is why only a seeded fraction of the runs ask for one.

(fork()-based isolation was tried first: 30 ms per reference alone, but
0.5-0.9 s with 16 workers forking concurrently in this sandbox.)
"""
from __future__ import annotations

import json
import os
import pickle
import subprocess
import sys

HERE = os.path.dirname(os.path.dirname(os.path.abspath(__file__)))

_SERVER = r"""
import os, pickle, sys
try:
    os.sched_setaffinity(0, range(os.cpu_count() or 1))
except Exception:
    pass
sys.path.insert(0, %r)
import sim
sim.use_repo()
import importlib
mods = {}
for name in %r:
    mods[name] = importlib.import_module(name)
sys.stdout.buffer.write(b"R")
sys.stdout.buffer.flush()
job = pickle.load(sys.stdin.buffer)
module, func, args = job
try:
    out = ("ok", getattr(importlib.import_module(module), func)(*args))
except BaseException as e:
    out = ("harness-error", type(e).__name__ + ": " + str(e))
pickle.dump(out, sys.stdout.buffer)
sys.stdout.buffer.flush()
"""


class Pristine:
    """A small pool of pre-warmed pristine interpreters; each serves one job."""

    def __init__(self, modules: tuple[str, ...], size: int = 2) -> None:
        self.modules = modules
        self.owner = os.getpid()
        self.size = size
        self.idle: list[subprocess.Popen] = []
        self.calls = 0
        self._fill()

    def _fill(self) -> None:
        env = dict(os.environ, PYTHONHASHSEED="0")
        while len(self.idle) < self.size:
            self.idle.append(subprocess.Popen(
                [sys.executable, "-c", _SERVER % (HERE, list(self.modules))],
                stdin=subprocess.PIPE, stdout=subprocess.PIPE, stderr=subprocess.DEVNULL, env=env, close_fds=True,
            ))

    def call(self, module: str, func: str, *args):
        self.calls += 1
        if not self.idle:
            self._fill()
        p = self.idle.pop(0)
        try:
            ready = p.stdout.read(1)
            if ready != b"R":
                raise RuntimeError("pristine interpreter failed to start")
            pickle.dump((module, func, args), p.stdin)
            p.stdin.flush()
            p.stdin.close()
            kind, val = pickle.load(p.stdout)
        finally:
            try:
                p.stdout.close()
            except Exception:
                pass
            p.wait()
            self._fill()  # pre-warm replacements while the worker goes on simulating
        if kind != "ok":
            raise RuntimeError("isolated reference failed: " + str(val))
        return val

    def close(self) -> None:
        for p in self.idle:
            try:
                p.kill()
                p.wait()
            except Exception:
                pass
        self.idle = []


_pool: Pristine | None = None


def start(*modules: str) -> None:
    """Pre-warm pristine interpreters for this worker (idempotent per process)."""
    global _pool
    if _pool is None or _pool.owner != os.getpid():
        import atexit

        _pool = Pristine(tuple(modules))
        atexit.register(_pool.close)


def call(module: str, func: str, *args):
    if _pool is None or _pool.owner != os.getpid():
        start(module)
    return _pool.call(module, func, *args)
