"""Choice tape: the single source of every decision a simulated run takes.

A tape is a set of named *streams* of small integers.  Every decision is
``tape.draw(n, stream)`` -> int in ``[0, n)``.

* record mode: each stream has its own PRNG derived from the run seed and the
  stream name (so drawing more from one stream never perturbs another); values
  are appended to the stream as they are drawn.
* replay mode: values are read back (``mod n``); past the end of a stream every
  draw is 0.
* preset streams: an enumerator can fix a stream up front (e.g. the fault
  stream ``f`` when every crash point is enumerated) while the others are
  recorded.

By convention 0 is always the simplest choice (no pre-emption, FIFO, no fault,
smallest workload), so shrinking a tape towards zeros/shorter *is* dropping
pre-emptions, faults and operations.

Nothing here reads a clock or any other source of nondeterminism.
"""
from __future__ import annotations

import hashlib
import json
import random
import typing as t


def run_seed(verif_seed: int, prop: str, index: int) -> int:
    h = hashlib.sha256(f"{verif_seed}:{prop}:{index}".encode()).digest()
    return int.from_bytes(h[:8], "big")


class Tape:
    __slots__ = ("seed", "streams", "pos", "rngs", "fixed", "log")

    def __init__(
        self,
        seed: int | None = None,
        streams: dict[str, list[int]] | None = None,
        preset: dict[str, list[int]] | None = None,
    ) -> None:
        # seed given, streams None  -> record mode
        # streams given             -> replay mode (seed ignored for drawing)
        self.seed = seed
        self.fixed: set[str] = set()
        self.pos: dict[str, int] = {}
        self.rngs: dict[str, random.Random] = {}
        if streams is not None:
            self.streams = {k: list(v) for k, v in streams.items()}
            self.fixed = set(self.streams) | {"*"}
        else:
            self.streams = {}
        if preset:
            for k, v in preset.items():
                self.streams[k] = list(v)
                self.fixed.add(k)
        self.log: list[tuple[str, int, int]] | None = None

    # -- drawing ---------------------------------------------------------
    def draw(self, n: int, stream: str = "w") -> int:
        if n <= 1:
            return 0
        s = self.streams.get(stream)
        if s is None:
            s = self.streams[stream] = []
        p = self.pos.get(stream, 0)
        self.pos[stream] = p + 1
        if "*" in self.fixed or stream in self.fixed:
            v = s[p] % n if p < len(s) else 0
        else:
            r = self.rngs.get(stream)
            if r is None:
                r = self.rngs[stream] = random.Random(f"{self.seed}/{stream}")
            v = r.randrange(n)
            s.append(v)
        return v

    def chance(self, num: int, den: int, stream: str = "w") -> bool:
        """True with probability num/den; 0 on the tape means False."""
        return self.draw(den, stream) >= den - num

    def pick(self, seq: t.Sequence, stream: str = "w"):
        return seq[self.draw(len(seq), stream)]

    def weighted(self, weights: t.Sequence[int], stream: str = "w") -> int:
        """Index drawn with the given integer weights; index 0 is tape value 0."""
        total = sum(weights)
        v = self.draw(total, stream)
        for i, w in enumerate(weights):
            if v < w:
                return i
            v -= w
        return len(weights) - 1

    def sub_rng(self, stream: str = "w") -> random.Random:
        """A PRNG seeded from one draw (for bulk data where shrinking is not needed)."""
        return random.Random(self.draw(1 << 30, stream))

    # -- (de)serialisation ------------------------------------------------
    def used(self) -> dict[str, list[int]]:
        """Streams truncated to what was actually consumed, trailing zeros dropped."""
        out = {}
        for k, v in self.streams.items():
            v = v[: self.pos.get(k, 0)]
            while v and v[-1] == 0:
                v = v[:-1]
            out[k] = v
        return out

    def to_json(self) -> dict:
        return {"seed": self.seed, "streams": self.used()}

    @classmethod
    def from_json(cls, d: dict) -> "Tape":
        return cls(seed=d.get("seed"), streams=d["streams"])

    def digest(self) -> str:
        return hashlib.sha256(
            json.dumps(self.used(), sort_keys=True).encode()
        ).hexdigest()[:16]


def replay_tape(streams: dict[str, list[int]]) -> Tape:
    return Tape(streams=streams)
