"""Environment construction helpers shared by the checks."""
from __future__ import annotations

import typing as t

from jinja2.bccache import BytecodeCache, Bucket

_CODE: dict[tuple, t.Any] = {}


class CodeMemo(BytecodeCache):
    """Process-level memo of compiled template code, plugged in through jinja's
    public bytecode-cache extension point so that thousands of simulated runs of
    one program do not recompile it.  The key includes a configuration key given
    by the caller (jinja's own cache key does not - see KF-C27-1), so code is
    only ever reused for an identically configured environment.

    Only used where compilation happens outside simulated scheduling (asyncio
    checks, warm-cache thread runs); a hit or a miss then changes no simulated
    step and a run stays a pure function of its tape.
    """

    def __init__(self, config_key: t.Hashable) -> None:
        self.config_key = config_key

    def load_bytecode(self, bucket: Bucket) -> None:
        code = _CODE.get((self.config_key, bucket.key, bucket.checksum))
        if code is not None:
            bucket.code = code

    def dump_bytecode(self, bucket: Bucket) -> None:
        if len(_CODE) > 4000:
            _CODE.clear()
        _CODE[(self.config_key, bucket.key, bucket.checksum)] = bucket.code


_GLOBAL_CACHES: list | None = None


def clear_process_caches() -> None:
    """Reset jinja's process-global caches so a run does not depend on the runs before it in this
    worker: jinja2.clear_caches() plus every LRUCache instance and every functools.lru_cache wrapper
    found as a module-level global of a jinja2 module (so a cache added by a change to jinja is
    reset too - what it does WITHIN a run is what the checks judge)."""
    global _GLOBAL_CACHES
    import sys

    import jinja2
    from jinja2.utils import LRUCache

    jinja2.clear_caches()
    if _GLOBAL_CACHES is None:
        found = []
        for name, mod in list(sys.modules.items()):
            if mod is None or not (name == "jinja2" or name.startswith("jinja2.")):
                continue
            for v in list(vars(mod).values()):
                if isinstance(v, LRUCache) or (callable(v) and hasattr(v, "cache_clear") and hasattr(v, "cache_info")):
                    if not any(v is x for x in found):
                        found.append(v)
        _GLOBAL_CACHES = found
    for c in _GLOBAL_CACHES:
        try:
            c.cache_clear() if hasattr(c, "cache_clear") else c.clear()
        except Exception:
            pass


_FP_BASE: list = [None]


def process_globals_fingerprint() -> str:
    """Digest of the CONTENT of every module-level and class-level dict / list / set of the jinja2 modules (default
    policies, default filter tables, class attributes ...), caches excluded.  It is never compared with an expected
    value; it only tells a check that something process-global now differs from what a freshly started interpreter
    has, so that in-process "isolated" references are no longer isolated and pristine interpreters must be asked."""
    import sys

    from jinja2.utils import LRUCache

    from .core import digest
    from .workload import snapshot

    items = []
    for name, mod in sorted(sys.modules.items()):
        if mod is None or not (name == "jinja2" or name.startswith("jinja2.")) or name.startswith("jinja2._verif"):
            continue
        for k, v in sorted(vars(mod).items(), key=lambda kv: kv[0]):
            if k.startswith("__"):
                continue
            if isinstance(v, (dict, list, set)) and not isinstance(v, LRUCache):
                items.append((name, k, repr(snapshot(v))))
            elif isinstance(v, type) and getattr(v, "__module__", None) == name:
                for ck, cv in sorted(vars(v).items(), key=lambda kv: kv[0]):
                    if isinstance(cv, (dict, list, set)) and not ck.startswith("__"):
                        items.append((name, k + "." + ck, repr(snapshot(cv))))
    return digest(items)


def process_globals_changed() -> bool:
    fp = process_globals_fingerprint()
    if _FP_BASE[0] is None:
        _FP_BASE[0] = fp
        return False
    return fp != _FP_BASE[0]


def _ae_by_name(name):
    """Callable autoescape (like select_autoescape): only some template names are escaped."""
    return name in ("main", "inc")


AE_MODES = (False, True, _ae_by_name)
