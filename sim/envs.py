"""Environment construction helpers shared by the checks."""
from __future__ import annotations

import typing as t

from jinja2.bccache import BytecodeCache, Bucket

_CODE: dict[tuple, t.Any] = {}


class CodeMemo(BytecodeCache):
    """Process-level memo of compiled template code, plugged in through jinja's
    public bytecode-cache extension point so that thousands of simulated runs of
    one program do not recompile it.  The key includes a configuration key given
    by the caller (jinja's own cache key does not - see KF-C27-1), so code is
    only ever reused for an identically configured environment.

    Only used where compilation happens outside simulated scheduling (asyncio
    checks, warm-cache thread runs); a hit or a miss then changes no simulated
    step and a run stays a pure function of its tape.
    """

    def __init__(self, config_key: t.Hashable) -> None:
        self.config_key = config_key

    def load_bytecode(self, bucket: Bucket) -> None:
        code = _CODE.get((self.config_key, bucket.key, bucket.checksum))
        if code is not None:
            bucket.code = code

    def dump_bytecode(self, bucket: Bucket) -> None:
        if len(_CODE) > 4000:
            _CODE.clear()
        _CODE[(self.config_key, bucket.key, bucket.checksum)] = bucket.code


def clear_process_caches() -> None:
    """Reset jinja's process-global caches so a run does not depend on history."""
    import jinja2

    jinja2.clear_caches()


def _ae_by_name(name):
    """Callable autoescape (like select_autoescape): only some template names are escaped."""
    return name in ("main", "inc")


AE_MODES = (False, True, _ae_by_name)
