"""Probe data: objects that count every call / iteration step / attribute /
item access / conversion as a numbered *data event* and can raise a private
exception at the k-th one (fault injection at the data seam, C38)."""
from __future__ import annotations

import asyncio
import collections.abc as abc
import sys

from . import workload as W
from .adata import CALL_KINDS, AIter, Events, call_only
from .aioloop import GATE_DELAYS

CAPABILITY_TESTS = {"test_sequence"}


class PEvents(Events):
    """Events that also notes whether the fault fired inside a capability test
    (jinja2.tests.test_sequence swallows any Exception by documented design)."""

    def __init__(self, fault_at: int = 0, exc: BaseException | None = None) -> None:
        super().__init__(fault_at, exc)
        self.in_capability_test = False

    def ev(self, kind: str) -> None:
        self.n += 1
        if self.n == self.fault_at and self.exc is not None:
            if call_only(self.exc) and kind not in CALL_KINDS:
                return  # this fault class is only meaningful inside a call
            self.fired = True
            self.fired_kind = kind
            f = sys._getframe(1)
            depth = 0
            while f is not None and depth < 12:
                if f.f_code.co_name in CAPABILITY_TESTS and f.f_code.co_filename.endswith("tests.py"):
                    self.in_capability_test = True
                    break
                f = f.f_back
                depth += 1
            raise self.exc


class PIter:
    def __init__(self, items, ev) -> None:
        self._sim_it = iter(items)
        self._sim_ev = ev

    def __iter__(self):
        return self

    def __next__(self):
        v = next(self._sim_it)  # StopIteration is not an event
        self._sim_ev.ev("next")
        return v


class PSeq:
    """Re-iterable sized sequence."""

    def __init__(self, items, ev) -> None:
        self._sim_items = list(items)
        self._sim_ev = ev

    def __iter__(self):
        self._sim_ev.ev("iter")
        return PIter(self._sim_items, self._sim_ev)

    def __len__(self):
        self._sim_ev.ev("len")
        return len(self._sim_items)

    def __getitem__(self, i):
        self._sim_ev.ev("item")
        return self._sim_items[i]

    def __contains__(self, x):
        self._sim_ev.ev("contains")
        return x in self._sim_items

    def __add__(self, other):
        self._sim_ev.ev("add")
        return self._sim_items + list(other)

    def __str__(self):
        self._sim_ev.ev("str")
        return str(self._sim_items)

    __repr__ = __str__


class PMap(abc.Mapping):
    def __init__(self, d, ev) -> None:
        self._sim_d = dict(d)
        self._sim_ev = ev

    def __getitem__(self, k):
        self._sim_ev.ev("item")
        return self._sim_d[k]

    def __iter__(self):
        self._sim_ev.ev("iter")
        return PIter(list(self._sim_d), self._sim_ev)

    def __len__(self):
        self._sim_ev.ev("len")
        return len(self._sim_d)

    def __str__(self):
        self._sim_ev.ev("str")
        return str(self._sim_d)

    __repr__ = __str__


class PObj:
    def __init__(self, a, b, k, ev) -> None:
        self._sim_vals = {"a": a, "b": b}
        self._sim_items = {"k": k}
        self._sim_ev = ev

    def __getattr__(self, name):
        if name.startswith("_") or name not in self._sim_vals:
            raise AttributeError(name)
        self._sim_ev.ev("attr")
        return self._sim_vals[name]

    def __getitem__(self, key):
        if key not in self._sim_items:
            raise KeyError(key)
        self._sim_ev.ev("item")
        return self._sim_items[key]

    def __str__(self):
        self._sim_ev.ev("str")
        return f"PObj({self._sim_vals['a']},{self._sim_vals['b']})"

    __repr__ = __str__


class PCall:
    def __init__(self, fn, ev, name) -> None:
        self._sim_fn = fn
        self._sim_ev = ev
        self.__name__ = name

    def __call__(self, *a, **kw):
        self._sim_ev.ev("call")
        return self._sim_fn(*a, **kw)

    def __getattr__(self, name):
        # the sandbox asks a callable for these two documented markers before calling it; a proxy / lazy object
        # may fail right there, and that failure is the data's exception like any other
        if name in ("unsafe_callable", "alters_data"):
            self._sim_ev.ev("safety-probe")
        raise AttributeError(name)


class PStr:
    """String-like data object (not a str): conversion, length, iteration, comparison are events."""

    def __init__(self, s, ev) -> None:
        self._sim_s = s
        self._sim_ev = ev

    def __str__(self):
        self._sim_ev.ev("str")
        return self._sim_s

    def __len__(self):
        self._sim_ev.ev("len")
        return len(self._sim_s)

    def __iter__(self):
        self._sim_ev.ev("iter")
        return PIter(self._sim_s, self._sim_ev)

    def __getitem__(self, i):
        self._sim_ev.ev("item")
        return self._sim_s[i]

    def __eq__(self, other):
        self._sim_ev.ev("eq")
        return self._sim_s == (other._sim_s if isinstance(other, PStr) else other)

    def __hash__(self):
        return hash(self._sim_s)

    def __repr__(self):
        return repr(self._sim_s)


class PHtml:
    def __init__(self, s, ev) -> None:
        self._sim_s = s
        self._sim_ev = ev

    def __html__(self):
        self._sim_ev.ev("html")
        return f"<u>{self._sim_s}</u>"

    def __str__(self):
        self._sim_ev.ev("str")
        return self._sim_s

    def __repr__(self):
        return repr(self._sim_s)


class PBool:
    def __init__(self, v, ev) -> None:
        self._sim_v = v
        self._sim_ev = ev

    def __bool__(self):
        self._sim_ev.ev("bool")
        return self._sim_v

    def __str__(self):
        self._sim_ev.ev("str")
        return str(self._sim_v)

    __repr__ = __str__


class PCmp:
    """Orderable, hashable value: comparisons are events (sort / min / max / unique)."""

    def __init__(self, v, ev) -> None:
        self._sim_v = v
        self._sim_ev = ev

    def __lt__(self, other):
        self._sim_ev.ev("lt")
        return self._sim_v < other._sim_v

    def __gt__(self, other):
        self._sim_ev.ev("lt")
        return self._sim_v > other._sim_v

    def __eq__(self, other):
        self._sim_ev.ev("eq")
        return isinstance(other, PCmp) and self._sim_v == other._sim_v

    def __hash__(self):
        return hash(self._sim_v)

    def __str__(self):
        self._sim_ev.ev("str")
        return f"c{self._sim_v}"

    __repr__ = __str__


def make_probe_data(seed: int, ev: Events, *, is_async: bool = False, tape=None, gate_stream: str = "g") -> dict:
    import random

    rng = random.Random(seed)
    base = W.make_data_rng(rng)
    data = dict(base)
    data["l1"] = PSeq(base["l1"], ev)
    data["l2"] = PSeq(base["l2"], ev)
    data["ld"] = PSeq(base["ld"], ev)
    data["d1"] = PMap(base["d1"], ev)
    data["o1"] = PObj(base["o1"].a, base["o1"].b, base["o1"]["k"], ev)
    data["lo"] = [PObj(o.a, o.b, o["k"], ev) for o in base["lo"]]
    data["f1"] = PCall(W.f1, ev, "f1")
    data["f2"] = PCall(W.f2, ev, "f2")
    data["s1"] = PStr(base["s1"], ev)
    data["s2"] = PHtml(base["s2"], ev)
    data["b1"] = PBool(bool(rng.randrange(2)), ev)
    data["lc"] = [PCmp(rng.randrange(4), ev) for _ in range(2 + rng.randrange(3))]
    if is_async:
        def delay():
            return GATE_DELAYS[tape.draw(len(GATE_DELAYS), gate_stream)] if tape is not None else 0

        async def af1(x):
            ev.ev("acall")
            await asyncio.sleep(delay())
            return W.f1(x)

        async def af2(x):
            ev.ev("acall")
            await asyncio.sleep(delay())
            return W.f2(x)

        items = list(base["l1"])

        async def ag1():
            for v in items:
                ev.ev("agen")
                await asyncio.sleep(delay())
                yield v

        class _Tape0:
            def draw(self, n, stream="g"):
                return 0

        tp = tape if tape is not None else _Tape0()
        import types

        @types.coroutine
        def gc1(x=0):
            ev.ev("gcoro")
            yield from asyncio.sleep(delay()).__await__()
            return W.f1(x) + 3

        data.update(gc1=gc1, af1=af1, af2=af2, ag1=ag1,
                    ai1=AIter(items, ev, tp, gate_stream), ai2=AIter(list(base["ld"]), ev, tp, gate_stream))
    return data
