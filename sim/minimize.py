"""Tape shrinking: delete blocks, zero blocks, lower values, keep a candidate
while the same violation signature (and known-finding classification) persists.

Because 0 on the tape is always the simplest choice, shrinking a tape is
dropping pre-emptions, faults and operations.
"""
from __future__ import annotations

import time
import typing as t

from .tape import Tape


def minimise(
    run: t.Callable[[Tape], t.Any],
    streams: dict[str, list[int]],
    sig: tuple,
    known: str | None,
    *,
    max_runs: int = 3000,
    max_seconds: float = 90.0,
) -> tuple[dict[str, list[int]], int]:
    t0 = time.monotonic()
    runs = 0
    best = {k: list(v) for k, v in streams.items()}

    def strip(s):
        s = {k: list(v) for k, v in s.items()}
        for k in s:
            while s[k] and s[k][-1] == 0:
                s[k].pop()
        return s

    def ok(cand) -> bool:
        nonlocal runs
        if runs >= max_runs or time.monotonic() - t0 > max_seconds:
            return False
        runs += 1
        try:
            o = run(Tape(streams=cand))
        except Exception:
            return False
        return o.sig is not None and tuple(o.sig) == tuple(sig) and o.known == known

    best = strip(best)
    improved = True
    while improved and runs < max_runs and time.monotonic() - t0 <= max_seconds:
        improved = False
        for name in sorted(best):
            # whole stream to nothing
            if best[name]:
                cand = dict(best)
                cand[name] = []
                if ok(cand):
                    best = strip(cand)
                    improved = True
                    continue
            # delete blocks
            size = max(len(best[name]) // 2, 1)
            while size >= 1:
                i = 0
                while i < len(best[name]):
                    cand = dict(best)
                    cand[name] = best[name][:i] + best[name][i + size:]
                    if cand[name] != best[name] and ok(cand):
                        best = strip(cand)
                        improved = True
                    else:
                        i += size
                size //= 2
            # zero blocks
            size = max(len(best[name]) // 2, 1)
            while size >= 1:
                i = 0
                while i < len(best[name]):
                    seg = best[name][i:i + size]
                    if any(seg):
                        cand = dict(best)
                        cand[name] = best[name][:i] + [0] * len(seg) + best[name][i + size:]
                        if ok(cand):
                            best = strip(cand)
                            improved = True
                    i += size
                size //= 2
            # lower single values
            for i in range(len(best[name])):
                if i >= len(best[name]):
                    break
                v = best[name][i]
                for nv in (0, v // 2, v - 1):
                    if 0 <= nv < v:
                        cand = dict(best)
                        cand[name] = best[name][:i] + [nv] + best[name][i + 1:]
                        if ok(cand):
                            best = strip(cand)
                            improved = True
                            break
    return best, runs
