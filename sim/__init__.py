"""Deterministic simulator for pallets/jinja (see /verif/DESIGN.md)."""
import os
import sys

REPO_SRC = os.environ.get("VERIF_REPO_SRC") or "/repo/src"


def use_repo() -> str:
    """Make sure ``jinja2`` is imported from the tree under test."""
    src = os.path.realpath(REPO_SRC)
    if sys.path[0] != src:
        sys.path.insert(0, src)
    import jinja2

    got = os.path.realpath(os.path.dirname(jinja2.__file__))
    want = os.path.join(src, "jinja2")
    if got != want:
        raise RuntimeError(f"jinja2 imported from {got}, expected {want}")
    return src
