"""Small executable reference models used as oracles."""
from __future__ import annotations

import typing as t

MISSING = ("<missing>",)


class LRUModel:
    """Sequential least-recently-used map.  ``order`` is oldest -> most recent."""

    __slots__ = ("cap", "order", "map")

    def __init__(self, cap: int, items: t.Iterable[tuple] = ()) -> None:
        self.cap = cap
        self.order: list = []
        self.map: dict = {}
        for k, v in items:
            self.order.append(k)
            self.map[k] = v

    def clone(self) -> "LRUModel":
        return LRUModel(self.cap, [(k, self.map[k]) for k in self.order])

    def state(self) -> tuple:
        return tuple((k, self.map[k]) for k in self.order)

    def _touch(self, k) -> None:
        self.order.remove(k)
        self.order.append(k)

    # every op returns ("ok", value) or ("err", "KeyError")
    def apply(self, op: tuple) -> tuple:
        name = op[0]
        if len(op) > 1 and isinstance(op[1], list):
            return ("err", "TypeError")  # unhashable key: nothing happens
        if name == "iterreads":
            keys = tuple(self.order) if op[1] else tuple(reversed(self.order))
            for k in keys:
                if k in self.map and op[2] in (0, 1):
                    self._touch(k)
            return ("ok", keys)
        if name == "getitem":
            k = op[1]
            if k in self.map:
                self._touch(k)
                return ("ok", self.map[k])
            return ("err", "KeyError")
        if name == "get":
            k = op[1]
            if k in self.map:
                self._touch(k)
                return ("ok", self.map[k])
            return ("ok", op[2] if len(op) > 2 else None)
        if name == "set":
            k, v = op[1], op[2]
            if k in self.map:
                self._touch(k)
            else:
                if len(self.map) >= self.cap:
                    old = self.order.pop(0)
                    del self.map[old]
                self.order.append(k)
            self.map[k] = v
            return ("ok", None)
        if name == "del":
            k = op[1]
            if k in self.map:
                del self.map[k]
                self.order.remove(k)
                return ("ok", None)
            return ("err", "KeyError")
        if name == "setdefault":
            k, v = op[1], op[2]
            if k in self.map:
                self._touch(k)
                return ("ok", self.map[k])
            self.apply(("set", k, v))
            return ("ok", v)
        if name == "in":
            return ("ok", op[1] in self.map)
        if name == "len":
            return ("ok", len(self.map))
        if name == "clear":
            self.order.clear()
            self.map.clear()
            return ("ok", None)
        if name == "keys" or name == "iter":
            return ("ok", tuple(reversed(self.order)))
        if name == "reversed":
            return ("ok", tuple(self.order))
        if name == "values":
            return ("ok", tuple(self.map[k] for k in reversed(self.order)))
        if name == "items":
            return ("ok", tuple((k, self.map[k]) for k in reversed(self.order)))
        raise ValueError(name)


def linearizable(
    init: LRUModel,
    ops: list[dict],
    final_items: tuple | None,
) -> tuple[bool, list[int] | None]:
    """Wing-Gong search.  ``ops``: dicts with keys op, inv, ret, res.
    ``final_items`` (most recent first) is an observation after all ops."""
    n = len(ops)
    full = (1 << n) - 1
    # precedence: a before b if a.ret < b.inv
    pred = [0] * n
    for i in range(n):
        for j in range(n):
            if i != j and ops[j]["ret"] < ops[i]["inv"]:
                pred[i] |= 1 << j
    seen: set = set()
    order: list[int] = []

    def rec(done: int, model: LRUModel) -> bool:
        if done == full:
            if final_items is None:
                return True
            return model.apply(("items",))[1] == final_items
        key = (done, model.state())
        if key in seen:
            return False
        seen.add(key)
        for i in range(n):
            bit = 1 << i
            if done & bit or (pred[i] & ~done):
                continue
            m2 = model.clone()
            if m2.apply(ops[i]["op"]) != ops[i]["res"]:
                continue
            order.append(i)
            if rec(done | bit, m2):
                return True
            order.pop()
        return False

    ok = rec(0, init.clone())
    return ok, (list(order) if ok else None)
