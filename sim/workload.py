"""Seeded generator of small template sets and data (DESIGN.md §3.6).

The generator is NOT an oracle: every check that uses it compares a run under
the simulator with the same program run in isolation.  Programs that raise are
fine; (exception class, scrubbed message) is then their output.

Templates are printed through a ``Syntax`` object so the same abstract program
can be emitted for different delimiter configurations (C13).
"""
from __future__ import annotations

import types
import typing as t


class Syntax:
    def __init__(self, bs="{%", be="%}", vs="{{", ve="}}", cs="{#", ce="#}", lsp=None, lcp=None,
                 trim=False, lstrip=False, newline="\n", ktn=False) -> None:
        self.bs, self.be, self.vs, self.ve, self.cs, self.ce = bs, be, vs, ve, cs, ce
        self.lsp, self.lcp = lsp, lcp
        self.trim, self.lstrip, self.newline, self.ktn = trim, lstrip, newline, ktn

    def env_kwargs(self) -> dict:
        return dict(
            block_start_string=self.bs, block_end_string=self.be,
            variable_start_string=self.vs, variable_end_string=self.ve,
            comment_start_string=self.cs, comment_end_string=self.ce,
            line_statement_prefix=self.lsp, line_comment_prefix=self.lcp,
            trim_blocks=self.trim, lstrip_blocks=self.lstrip,
            newline_sequence=self.newline, keep_trailing_newline=self.ktn,
        )

    def key(self) -> tuple:
        return tuple(sorted((k, str(v)) for k, v in self.env_kwargs().items()))


DEFAULT_SYNTAX = Syntax()

SYNTAXES = [
    Syntax(),
    Syntax("<%", "%>", "${", "}", "<%#", "%>"),
    Syntax("<?", "?>", "<?=", "?>", "<!--", "-->"),
    Syntax("[%", "%]", "[[", "]]", "[#", "#]"),
    Syntax("{%", "%}", "{{", "}}", "{#", "#}", lsp="%", lcp="##"),
    Syntax("<%", "%>", "<%=", "%>", "<%#", "%>", lsp="#", lcp="//", trim=True, lstrip=True),
    Syntax("{%", "%}", "{{", "}}", "{#", "#}", trim=True),
    Syntax("{%", "%}", "{{", "}}", "{#", "#}", lstrip=True),
    Syntax("{%", "%}", "{{", "}}", "{#", "#}", trim=True, lstrip=True),
    Syntax("{%", "%}", "{{", "}}", "{#", "#}", ktn=True),
    Syntax("{%", "%}", "{{", "}}", "{#", "#}", newline="\r\n"),
    Syntax("{%", "%}", "{{", "}}", "{#", "#}", newline="\r\n", ktn=True),
    Syntax("{{%", "%}}", "{{{", "}}}", "{{#", "#}}"),
    Syntax("<<", ">>", "<<=", ">>", "<<#", "#>>", lsp="@@"),
    Syntax("(%", "%)", "((", "))", "(#", "#)", trim=True, ktn=True),
]


class Program:
    def __init__(self) -> None:
        self.templates: dict[str, str] = {}
        self.main = "main"
        self.tags: set[str] = set()
        self.features: dict[str, int] = {}
        self.entry_points: list[str] = []  # renderable top-level templates

    def feat(self, k: str) -> None:
        self.features[k] = self.features.get(k, 0) + 1

    def describe(self) -> dict:
        return {"templates": dict(self.templates), "main": self.main, "tags": sorted(self.tags)}


class Scope:
    def __init__(self, parent: "Scope | None" = None) -> None:
        self.ints: list[str] = list(parent.ints) if parent else []
        self.strs: list[str] = list(parent.strs) if parent else []
        self.lists: list[str] = list(parent.lists) if parent else []
        self.dicts: list[str] = list(parent.dicts) if parent else []
        self.ns: list[str] = list(parent.ns) if parent else []
        self.in_loop = parent.in_loop if parent else False
        self.macros: list[tuple[str, int, bool]] = list(parent.macros) if parent else []
        self.callers = parent.callers if parent else False
        # closed: data variables are not visible (module imported without context)
        self.closed = parent.closed if parent else False


INT_VARS = ["n1", "n2"]
STR_VARS = ["s1", "s2"]
LIST_INT = ["l1"]
LIST_STR = ["l2"]
LIST_DICT = ["ld"]
DICT_VARS = ["d1"]


class Gen:
    """Generates one Program from the tape (stream 'w')."""

    def __init__(self, tape, *, syntax: Syntax = DEFAULT_SYNTAX, is_async: bool = False,
                 probe: bool = False, allow_module_state: bool = False, loopcontrols: bool = False,
                 max_depth: int = 3, size: int = 6, compile_bias: bool = False,
                 env_globals: bool = False, template_globals: bool = False, stream: str = "w",
                 native: bool = False, pair_den: int = 3, debug_ext: bool = False, i18n: bool = False) -> None:
        self.tape = tape
        self.sx = syntax
        self.is_async = is_async
        self.probe = probe
        self.allow_module_state = allow_module_state
        self.loopcontrols = loopcontrols
        self.max_depth = max_depth
        self.size = size
        self.compile_bias = compile_bias
        self.env_globals = env_globals  # environment globals gn (int) and gf (callable; awaitable in async mode)
        self.template_globals = template_globals  # template-level global tg passed to get_template(globals=...)
        self.stream = stream
        self.i18n = i18n  # jinja2.ext.i18n with newstyle callables and a translating catalog
        self.debug_ext = debug_ext  # jinja2.ext.debug is loaded: {% debug %} dumps the context with pprint (repr of the data)
        self.pair_den = pair_den  # 1 in pair_den modules gets the eval-context macro pair
        self.native = native  # NativeEnvironment: block-set literals become containers the template may mutate
        self.prog = Program()
        self.uid = 0
        self.have_mod = False
        self.have_inc = False
        self.mod_exports: list[tuple[str, str, int]] = []  # (name, kind, nargs)
        self.mod_exports_all: list[tuple[str, str, int]] = []
        self.blocks: list[str] = []
        self.cur_block: int | None = None  # index of the block being generated (None = outside blocks)
        self.cur_template = "main"
        self.inc_uses_lv = False
        self.pair: tuple[str, str] | None = None
        self.both: str | None = None

    # -- helpers -------------------------------------------------------------
    def d(self, n: int) -> int:
        return self.tape.draw(n, self.stream)

    def pick(self, seq):
        return seq[self.d(len(seq))]

    def chance(self, num: int, den: int) -> bool:
        return self.d(den) >= den - num

    def fresh(self, p: str) -> str:
        self.uid += 1
        return f"{p}{self.uid}"

    def tag(self, content: str) -> str:
        sx = self.sx
        if sx.lsp is not None and self.chance(1, 3):
            return f"\n{sx.lsp} {content}\n"
        ws = self.d(8)
        l = "-" if ws == 6 else ""
        r = "-" if ws == 7 else ""
        return f"{sx.bs}{l} {content} {r}{sx.be}"

    def var(self, expr: str) -> str:
        return f"{self.sx.vs} {expr} {self.sx.ve}"

    def comment(self, text: str) -> str:
        if self.sx.lcp is not None and self.chance(1, 2):
            return f"\n{self.sx.lcp} {text}\n"
        return f"{self.sx.cs} {text} {self.sx.ce}"

    TEXTS = ["x", " ", "\n", "<b>", "&", "a b", ".", "\n\n", "  \n", "t\n", "é"]

    def text(self) -> str:
        return self.pick(self.TEXTS)

    # -- expressions ---------------------------------------------------------
    # closed scopes: only local names and literals
    def c_int(self, sc: Scope, depth: int) -> str:
        if self.template_globals and self.chance(1, 6):
            self.prog.feat("template_global_use")
            return "(tg|default(0))"
        if self.env_globals and self.chance(1, 4):
            self.prog.feat("env_global_use")
            return "gn" if self.chance(1, 3) else f"gf({self.c_int(sc, depth + 1) if depth < 2 else 1})"
        k = self.d(6 if depth < 2 else 2)
        if k == 0:
            return self.pick(sc.ints) if sc.ints else str(self.d(5))
        if k == 1:
            return str(self.d(5))
        if k == 2:
            return f"({self.c_int(sc, depth + 1)} + {self.c_int(sc, depth + 1)})"
        if k == 3:
            return f"[{self.c_int(sc, depth + 1)}, {self.c_int(sc, depth + 1)}]|{self.pick(['sum', 'max', 'first', 'length'])}"
        if k == 4:
            return f"({self.c_int(sc, depth + 1)} if {self.c_int(sc, depth + 1)} is odd else {self.c_int(sc, depth + 1)})"
        return f"range({self.c_int(sc, depth + 1)} % 4)|list|length"

    def c_str(self, sc: Scope, depth: int) -> str:
        if self.env_globals and self.chance(1, 14):
            # a free name that some loop elsewhere may be setting at this very moment (must stay undefined here)
            self.prog.feat("free_name_from_pool")
            return f"({self.pick(['cva', 'cvb'])}|default('-'))"
        if self.env_globals and self.chance(1, 10):
            # environment global whose string conversion is a data event (visible in modules imported without context)
            self.prog.feat("env_global_str_object")
            return "gso"
        k = self.d(6 if depth < 2 else 2)
        if k == 5:
            # join looks at the eval context of the context it runs in (module context inside an imported macro)
            # (only visible when an item is markup: then the other items are escaped, or not, by that eval context)
            return f"[({self.c_str(sc, depth + 1)})|safe, {self.pick([chr(39) + 'a&b' + chr(39), chr(39) + '<u>' + chr(39), self.c_str(sc, depth + 1)])}]|join"
        if k == 0:
            return self.pick(sc.strs) if sc.strs else "'q'"
        if k == 1:
            return self.pick(["'a'", "'<i>'", "'x y'", "'p\nq'"])
        if k == 2:
            return f"{self.c_int(sc, depth + 1)}|string"
        if k == 3:
            return f"({self.c_str(sc, depth + 1)} ~ {self.c_int(sc, depth + 1)})"
        return f"{self.c_str(sc, depth + 1)}|{self.pick(['upper', 'e', 'title', 'length'])}"

    def e_int(self, sc: Scope, depth: int = 0) -> str:
        if sc.closed:
            return self.c_int(sc, depth)
        if self.template_globals and self.chance(1, 12):
            self.prog.feat("template_global_use")
            return "(tg|default(0))"
        opts = 12 if depth < 2 else 4
        k = self.d(opts + (3 if self.is_async else 0) + (2 if self.probe else 0))
        if k == 0:
            return self.pick(sc.ints or INT_VARS)
        if k == 1:
            return str(self.d(5))
        if k == 2:
            return self.pick(INT_VARS)
        if k == 3:
            return f"{self.pick(LIST_INT)}|length"
        if k == 4:
            return f"({self.e_int(sc, depth + 1)} + {self.e_int(sc, depth + 1)})"
        if k == 5:
            return f"{self.e_list(sc, depth + 1, 'int')}|sum"
        if k == 6:
            return f"f1({self.e_int(sc, depth + 1)})"
        if k == 7:
            return self.pick(["d1.k1", "d1['k2']", "o1.a", "o1['k']", "l1[0]", "l1[-1]", "ld[0].k"])
        if k == 8:
            return f"ld|sum(attribute='k')"
        if k == 9:
            return f"({self.e_int(sc, depth + 1)} if {self.e_bool(sc, depth + 1)} else {self.e_int(sc, depth + 1)})"
        if k == 10:
            return f"{self.e_list(sc, depth + 1, 'int')}|first|default(0)"
        if k == 11:
            return f"(ld|map(attribute='k')|list|{self.pick(['max', 'min', 'sum', 'length'])})"
        k -= opts
        if self.is_async:
            if k == 0:
                return f"af1({self.e_int(sc, depth + 1)})"
            if k == 1:
                return "ai1|sum"
            if k == 2:
                return self.pick(["ai1|first", "gc1(1)", "gc1(n1)"])
            k -= 3
        if k == 0:
            return "(u1.nope|default(7))"
        return f"{self.pick(sc.ints or INT_VARS)}|abs"

    PROBE_STR = ["lc|sort|join(',')", "lc|max|string", "lc|min|string", "lc|unique|join", "o1.b", "s2", "s2|e",
                 "(s1 ~ s2)", "o1['k']|string", "s1|length|string", "lc|sort(reverse=true)|first|string",
                 "s1|first", "s1|list|join('-')", "d1|length|string", "l2|length|string", "lc|map('string')|join"]
    PROBE_BOOL = ["b1", "not b1", "(b1 and l1)", "lc|max == lc|min", "s1 == 'a'", "s1 in l2", "2 in l1",
                  "o1.a", "(b1 or u1)", "l1 is sequence", "o1 is sequence", "d1 is sequence", "s1 is sequence"]

    def e_str(self, sc: Scope, depth: int = 0) -> str:
        if sc.closed:
            return self.c_str(sc, depth)
        if self.probe and self.chance(1, 5):
            return self.pick(self.PROBE_STR)
        if not self.probe and self.chance(1, 16):
            self.prog.feat("str_object")
            return self.pick(["so1|string", "(so1 ~ '')", "so1"])
        opts = 14 if depth < 2 else 3
        k = self.d(opts + (2 if self.is_async else 0))
        if k == 0:
            return self.pick(sc.strs or STR_VARS)
        if k == 1:
            return self.pick(["'a'", "'<i>'", "'x y'", "''", "'é&'", "'p\nq'", "'r\r\ns'"])
        if k == 2:
            return self.pick(STR_VARS)
        if k == 3:
            return f"{self.e_str(sc, depth + 1)}|{self.pick(['upper', 'lower', 'title', 'trim', 'capitalize', 'e', 'string', 'length', 'wordcount', 'striptags', 'forceescape', 'urlencode'])}"
        if k == 4:
            return f"({self.e_str(sc, depth + 1)} ~ {self.pick([self.e_str, self.e_int])(sc, depth + 1)})"
        if k == 5:
            return f"{self.e_list(sc, depth + 1, self.pick(['int', 'str']))}|join({self.pick([chr(39) + ',' + chr(39), chr(39) + '<' + chr(39), ''])})"
        if k == 6:
            return f"f2({self.e_int(sc, depth + 1)})"
        if k == 7:
            return f"'%s-%s'|format({self.e_int(sc, depth + 1)}, {self.e_str(sc, depth + 1)})"
        if k == 8:
            return f"{self.e_str(sc, depth + 1)}|replace('a', {self.e_str(sc, depth + 1)})"
        if k == 9:
            return self.pick([
                "ld|map(attribute='g')|join('/')",
                "ld|groupby('g')|map(attribute='grouper')|join",
                "ld|groupby('g')|map('last')|map('length')|join(',')",
                "d1|dictsort|map('first')|join",
                "d1|items|map('last')|join(',')",
                "ld|selectattr('k', 'gt', 1)|map(attribute='g')|join",
                "ld|rejectattr('k', 'odd')|map(attribute='g')|list|string",
                "ld|map(attribute='zz', default='?')|join",
                "l2|unique|join",
                "l1|batch(2, 0)|map('sum')|join('+')",
                "l1|slice(2)|map('list')|list|string",
                "d1|tojson",
                "d1|tojson(indent=2)",
                "l1|tojson(1)",
                "ld|tojson",
                "d1|xmlattr",
                "o1['a']|string",
                "o1['b']",
                "lo|map(attribute='a')|join(',')",
                "lo|sort(attribute='a')|map(attribute='b')|join",
                "lo|selectattr('a')|list|length|string",
                "lo|groupby('a')|map('first')|join",
                "lo|unique(attribute='a')|list|length|string",
                "lo|tojson(indent=2)",
                "(('alpha beta gamma delta ' ~ s1)|wordwrap(7)) ~ '/' ~ (('alpha beta gamma-delta epsilon ' ~ s2)|wordwrap(12, false, '|', false))",
                "('alpha beta gamma-delta ' ~ s2)|wordwrap(12, false, '|', false)",
                "l1|reject('in', [1, 2])|join(',')",
                "l1|select('in', [0, 3, 4])|join(',')",
                "ld|rejectattr('k', 'in', [1])|map(attribute='g')|join",
                "lo|map(attribute='a', default=0)|join(',')",
                "lo|map(attribute='k')|join(',')",
                "lo|sum(attribute='k')|string",
                "lo|sort(attribute='k')|map(attribute='b')|join",
                "l2|map('upper')|join",
                "l1|select('odd')|join",
                "l1|reject('gt', 1)|join",
                "l2|sort(reverse=true)|join",
                "ld|sort(attribute='g,k')|map(attribute='k')|join",
            ])
        if k == 10:
            return f"{self.e_int(sc, depth + 1)}|string"
        if k == 11:
            return f"o1|string"
        if k == 12:
            return f"({self.e_str(sc, depth + 1)} if {self.e_bool(sc, depth + 1)})"
        if k == 13:
            return f"{self.e_str(sc, depth + 1)}|{self.pick(['safe', 'center(7)', 'truncate(4, true)', 'indent(2)', 'default(' + chr(39) + 'd' + chr(39) + ', true)', 'first', 'last', 'list|join(' + chr(39) + '.' + chr(39) + ')'])}"
        k -= opts
        if k == 0:
            return f"af2({self.e_int(sc, depth + 1)})"
        return self.pick(["ai1|join(',')", "ai1|map('string')|join", "ai1|list|string", "ai1|select('odd')|join",
                          "ai1|unique|join", "ai1|batch(2)|map('sum')|join", "ai2|map(attribute='g')|join",
                          "ai2|groupby('g')|map('first')|join", "ai1|reject('odd')|list|string",
                          "ai2|selectattr('k', 'odd')|map(attribute='k')|join", "ai1|slice(2)|map('list')|list|string"])

    def e_list(self, sc: Scope, depth: int = 0, elem: str = "int") -> str:
        if sc.closed:
            if elem == "str":
                return f"[{self.c_str(sc, depth + 1)}, {self.c_str(sc, depth + 1)}]"
            if self.chance(1, 2):
                return f"range({self.c_int(sc, depth + 1)} % 4)|list"
            return f"[{self.c_int(sc, depth + 1)}, {self.c_int(sc, depth + 1)}]"
        base = {"int": LIST_INT, "str": LIST_STR, "dict": LIST_DICT}[elem]
        opts = 10 if depth < 2 else 2
        k = self.d(opts)
        loc = [v for v in sc.lists if v.startswith(elem[0])]
        if k == 0:
            return self.pick(loc or base)
        if k == 1:
            return self.pick(base)
        if elem == "int":
            if k == 2:
                return f"{self.e_list(sc, depth + 1, 'int')}|select({self.pick([chr(39) + 'odd' + chr(39), chr(39) + 'even' + chr(39), chr(39) + 'gt' + chr(39) + ', 1'])})|list"
            if k == 3:
                return f"range({self.e_int(sc, depth + 1)} % 4)|list"
            if k == 4:
                return f"{self.e_list(sc, depth + 1, 'int')}|{self.pick(['sort', 'sort(reverse=true)', 'unique|list', 'reverse|list', 'list', 'map(' + chr(39) + 'abs' + chr(39) + ')|list'])}"
            if k == 5:
                return f"({self.e_list(sc, depth + 1, 'int')} + [{self.e_int(sc, depth + 1)}])"
            if k == 6:
                return "lw|sum(start=l0)"
            if k == 7:
                return "ld|map(attribute='k')|list"
            if k == 8:
                return f"[{self.e_int(sc, depth + 1)}, {self.e_int(sc, depth + 1)}]"
            if k == 9 and self.is_async:
                return self.pick(["ai1|list", "ai1|map('abs')|list", "ai1|reject('odd')|list"])
        elif elem == "str":
            if k == 2:
                return f"{self.e_list(sc, depth + 1, 'str')}|map({self.pick([chr(39) + 'upper' + chr(39), chr(39) + 'trim' + chr(39), chr(39) + 'e' + chr(39)])})|list"
            if k == 3:
                return "ld|map(attribute='g')|list"
            if k == 4:
                return f"{self.e_list(sc, depth + 1, 'str')}|{self.pick(['sort', 'unique|list', 'reverse|list'])}"
            if k == 5:
                return f"[{self.e_str(sc, depth + 1)}, {self.e_str(sc, depth + 1)}]"
            if k == 6:
                return "d1|list"
        return self.pick(base)

    def e_bool(self, sc: Scope, depth: int = 0) -> str:
        if sc.closed:
            k = self.d(3)
            if k == 0:
                return f"{self.c_int(sc, depth + 1)} {self.pick(['>', '<', '=='])} {self.c_int(sc, depth + 1)}"
            if k == 1:
                return f"{self.c_int(sc, depth + 1)} is {self.pick(['odd', 'even'])}"
            return f"not {self.c_int(sc, depth + 1)}"
        if self.probe and self.chance(1, 4):
            return self.pick(self.PROBE_BOOL)
        k = self.d(11 if depth < 2 else 4)
        if k == 10:
            self.prog.feat("in_literal_sequence")
            if self.chance(1, 2):
                op_, cl_ = self.pick([("[", "]"), ("(", ")")])
                return f"{self.e_str(sc, depth + 1)} {self.pick(['in', 'not in'])} {op_}'html', 'htm', 'a', 'xml', '<x>', 'b'{cl_}"
            return f"{self.e_int(sc, depth + 1)} in [1, 2, 3, 5, 8, 'x', 'y']"
        if k == 0:
            return f"{self.e_int(sc, depth + 1)} {self.pick(['>', '<', '==', '!=', '>=', '<='])} {self.e_int(sc, depth + 1)}"
        if k == 1:
            return f"{self.pick(sc.ints or INT_VARS)} is {self.pick(['odd', 'even', 'divisibleby 2', 'defined', 'number'])}"
        if k == 2:
            return f"{self.e_str(sc, depth + 1)} in {self.pick(LIST_STR)}"
        if k == 3:
            return self.pick(["u1 is defined", "u1 is undefined", "l1 is sequence", "d1 is mapping", "s1 is string", "o1 is sequence", "o1 is iterable", "f1 is callable", "n1 is none", "u1"])
        if k == 4:
            return f"not {self.e_bool(sc, depth + 1)}"
        if k == 5:
            return f"({self.e_bool(sc, depth + 1)} {self.pick(['and', 'or'])} {self.e_bool(sc, depth + 1)})"
        if k == 6:
            return f"{self.e_int(sc, depth + 1)} in {self.e_list(sc, depth + 1, 'int')}"
        if k == 7:
            return f"{self.e_list(sc, depth + 1, 'int')}"
        if k == 8:
            return f"{self.e_str(sc, depth + 1)} == {self.e_str(sc, depth + 1)}"
        return "o1.a == 1" if not self.is_async else "af1(1) == 2"

    def e_any(self, sc: Scope) -> str:
        k = self.d(8)
        if k < 3:
            return self.e_int(sc)
        if k < 6:
            return self.e_str(sc)
        if k == 6:
            return self.e_list(sc, 1, self.pick(["int", "str"]))
        return self.e_bool(sc)

    # -- statements ----------------------------------------------------------
    def body(self, sc: Scope, depth: int, n: int | None = None) -> str:
        n = n if n is not None else 1 + self.d(3)
        return "".join(self.stmt(sc, depth) for _ in range(n))

    NAMEPOOL = ["alpha", "bravo", "charlie", "delta", "echo", "foxtrot", "golf", "hotel", "india", "juliet",
                "kilo", "lima", "mike", "november", "oscar", "papa", "quebec", "romeo", "sierra", "tango"]

    def _names(self, lo: int, hi: int) -> list[str]:
        n = lo + self.d(hi - lo + 1)
        pool = list(self.NAMEPOOL)
        out = []
        for _ in range(n):
            out.append(pool.pop(self.d(len(pool))))
        return out

    def _ctx_use(self) -> str:
        """Something that makes the compiler dump the local context."""
        k = self.d(3)
        if self.have_inc and self.cur_template != "inc" and k == 0:
            return self.tag("include 'inc'")
        if self.have_mod and self.cur_template not in ("mod", "inc") and k == 1:
            return self.tag(f"import 'mod' as {self.fresh('im')} with context")
        if self.have_mod and self.cur_template not in ("mod", "inc") and self.mod_exports_all:
            nm = ", ".join(n for n, _k, _a in self.mod_exports_all)
            return self.tag(f"from 'mod' import {nm} with context")
        return self.tag("include ['nope', 'inc'] ignore missing")

    def bias_stmt(self, sc: Scope, depth: int) -> str:
        """Statements aimed at the places where the code generator turns a set of names into text."""
        P = self.prog
        names = self._names(2, 6)
        k = self.d(7)
        if k == 6:
            P.feat("bias_namespace_tuple_set")
            s = "".join(self.tag(f"set {n} = namespace()") for n in names)
            s += self.tag(f"set {', '.join(n + '.' + 'xyzuvw'[i] for i, n in enumerate(names))} = {', '.join(str(self.d(9)) for _ in names)}")
            return s + "".join(self.var(f"{n}.{'xyzuvw'[i]}") for i, n in enumerate(names))
        if k == 0:
            P.feat("bias_branch_stores")
            a = "".join(self.tag(f"set {n} = {self.d(9)}") for n in names)
            b = "".join(self.tag(f"set {n} = {self.d(9)}") for n in reversed(names))
            s = self.tag(f"if {self.e_bool(sc, 2)}") + a + self.tag("else") + b + self.tag("endif")
            s += self._ctx_use() + "".join(self.var(n) for n in names)
            sc.ints.extend(names)
            return s
        if k == 1:
            P.feat("bias_tuple_set")
            s = self.tag(f"set {', '.join(names)} = {', '.join(str(self.d(9)) for _ in names)}")
            for n in names[:2]:
                s += self.tag(f"set {n}x") + self.var(n) + self.tag("endset")
            sc.ints.extend(names)
            return s + self._ctx_use()
        if k == 2:
            P.feat("bias_loop_stores")
            it = self.fresh("x")
            s = self.tag(f"for {it} in l1")
            s += "".join(self.tag(f"set {n} = {it} + {i}") for i, n in enumerate(names))
            s += self._ctx_use() + self.var(" ~ ".join(names)) + self.tag("endfor")
            return s
        if k == 3:
            P.feat("bias_nested_frames")
            w = self.fresh("wi")
            s = "".join(self.tag(f"set {n} = {i}") for i, n in enumerate(names[: len(names) // 2 + 1]))
            s += self.tag(f"with {w} = 1") + "".join(self.tag(f"set {n} = {w}") for n in names[len(names) // 2:])
            it = self.fresh("x")
            s += self.tag(f"for {it} in l1") + self.tag(f"set {names[0]}y = {it}") + self._ctx_use() + self.tag("endfor")
            s += self.tag("endwith")
            return s
        if k == 4:
            P.feat("bias_many_filters_tests")
            flt = ["upper", "lower", "title", "trim", "e", "string", "length", "capitalize", "striptags", "wordcount", "list", "first", "last"]
            tst = ["odd", "even", "defined", "number", "string", "none", "mapping", "iterable", "sequence", "lower", "upper"]
            parts = []
            for n in names:
                parts.append(self.var(f"s1|{flt[self.d(len(flt))]}|{flt[self.d(len(flt))]}"))
                parts.append(self.tag(f"if n1 is {tst[self.d(len(tst))]} or s1 is {tst[self.d(len(tst))]}") + n + self.tag("endif"))
            return "".join(parts)
        if self.chance(1, 4):
            # a name with a special meaning in that kind of body is (legally) ASSIGNED there; later templates that use
            # the name in its special meaning must compile as they always do
            P.feat("bias_special_name_assigned")
            m = self.fresh("m")
            which = self.d(4)
            if which == 0:
                return (self.tag(f"macro {m}(a)") + self.tag("set kwargs = {'a': a}") + self.var("kwargs|length")
                        + self.tag("endmacro") + self.var(f"{m}(1)"))
            if which == 1:
                return (self.tag(f"macro {m}(a)") + self.tag("set varargs = [a]") + self.tag("set caller = a") + self.var("varargs|length ~ caller")
                        + self.tag("endmacro") + self.var(f"{m}(2)"))
            if which == 2:
                return self.tag("for q in [1, 2]") + self.tag("set loop = q") + self.var("loop") + self.tag("endfor")
            return self.tag("set self = 1") + self.tag("set super = 2") + self.var("self ~ super")
        P.feat("bias_macro_special")
        m = self.fresh("m")
        params = ", ".join(f"{n}={i}" for i, n in enumerate(names))
        body = "".join(self.var(n) for n in names) + self.var("varargs|length") + self.var("kwargs|length")
        body += self.tag("if caller") + self.var("caller()") + self.tag("endif")
        s = self.tag(f"macro {m}({params})") + body + self.tag("endmacro")
        s += self.var(f"{m}(1, 2)") + self.tag(f"call {m}()") + "c" + self.tag("endcall")
        for a_, b_ in zip(names[::2], names[1::2]):
            it = self.fresh("p")
            s += self.tag(f"for {a_}, {b_} in d1|dictsort") + self.var(f"{a_} ~ {b_}") + self.tag("endfor")
        return s

    CONST_ZOO = [
        "'docs: http://example.org/x'|urlize(nofollow=true)", "'see www.example.org now'|urlize(rel='me friend', target='_top')",
        "'http://example.com/a?b=1'|urlize(40, true, rel='x y z')", "{'b': 1, 'a': 2, 'c': [3]}|tojson", "{'b': 1, 'a': '<'}|xmlattr",
        "{'b': 1, 'a': 2}|dictsort|list|string", "['b', 'a', 'b', 'c']|unique|join(',')", "{'k': 'v w', 'j': 1}|urlencode",
        "['x', 'y', 'z']|join('|')|upper", "{'b': 1, 'a': 2}|items|list|string", "'a b c'|wordcount", "[3, 1, 2]|sort|join",
        "{'b': {'y': 1, 'x': 2}}|tojson(indent=1)", "'%s-%s'|format('a', 'b')", "('a', 'b', 'c')|reverse|join",
        "['aa', 'b']|map('length')|sum", "'alpha beta gamma delta epsilon zeta'|wordwrap(7)",
        "'alpha beta gamma-delta epsilon zeta eta'|wordwrap(13, false, '|', false)", "'alpha beta gamma delta'|truncate(9)",
        "'alpha beta gamma delta'|truncate(14, true, '!', 0)", "'a\nb\n\nc'|indent(4, true, true)", "'x'|center(9)", "'a,b'|replace(',', ';')|title", "{'a': 1}|pprint", "[('b', 1), ('a', 2)]|groupby(0)|list|length",
    ]

    def stmt(self, sc: Scope, depth: int) -> str:
        if self.compile_bias and self.chance(1, 12):
            # constant expressions: the optimizer evaluates them at compile time and their text lands in the source
            self.prog.feat("constant_folded_filter")
            return self.var(self.pick(self.CONST_ZOO))
        if self.compile_bias and not sc.closed and self.chance(2, 5):
            return self.bias_stmt(sc, depth)
        deep = depth >= self.max_depth
        weights = [
            5,  # 0 output
            3,  # 1 text
            0 if deep else 4,  # 2 if
            0 if deep else 5,  # 3 for
            3,  # 4 set
            0 if deep else 2,  # 5 with
            0 if deep else 1,  # 6 filter block
            0 if deep else 2,  # 7 macro def + call
            2 if sc.macros else 0,  # 8 macro call
            2 if self.have_inc and self.cur_template != "inc" else 0,  # 9 include
            3 if self.mod_exports and self.cur_template not in ("mod", "inc") else 0,  # 10 use import
            1,  # 11 comment
            0 if deep else 2,  # 12 namespace pattern
            2 if self._callable_blocks() and self.cur_template in ("main", "base") else 0,  # 13 self.block()
            0 if deep else 1,  # 14 block set
            2 if sc.callers else 0,  # 15 caller()
            2 if sc.in_loop else 0,  # 16 loop attrs
            (2 if sc.in_loop and self.loopcontrols else 0),  # 17 break/continue
            0 if deep else 1,  # 18 raw
            0 if deep or not any(m[2] for m in sc.macros) else 2,  # 19 call block
            0 if deep else 1,  # 20 autoescape block
            0 if sc.closed or self.probe else 1,  # 21 namespace initialised from a dict of the data
            3 if self.native else 0,  # 22 (native environments) container literal from a block set, mutated by the template
            2 if self.env_globals and sc.in_loop else (1 if self.env_globals else 0),  # 23 set + context-passing global reading it back
            2 if self.have_mod and self.cur_template not in ("mod", "inc") else 0,  # 24 print / include the module template itself
            1 if self.debug_ext and not sc.closed else 0,  # 25 {% debug %}
            0 if sc.closed or self.probe else 1,  # 26 a copy of a data list (|list) that the template then changes
            2 if self.i18n and not sc.closed else 0,  # 27 {% trans %} with a variable
        ]
        k = self.tape.weighted(weights, self.stream)
        P = self.prog
        if k == 0:
            e = self.e_any(sc)
            if self.chance(1, 6):
                e = f"{e}|e" if self.chance(1, 2) else f"({e})|string|safe"
            return self.var(e)
        if k == 1:
            return self.text()
        if k == 2:
            P.feat("if")
            s = self.tag(f"if {self.e_bool(sc)}") + self.body(Scope(sc), depth + 1)
            if self.chance(1, 3):
                s += self.tag(f"elif {self.e_bool(sc)}") + self.body(Scope(sc), depth + 1)
            if self.chance(1, 2):
                s += self.tag("else") + self.body(Scope(sc), depth + 1)
            return s + self.tag("endif")
        if k == 3:
            return self.for_stmt(sc, depth)
        if k == 4:
            kind = self.d(3)
            if kind == 0:
                v = self.fresh("vi")
                s = self.tag(f"set {v} = {self.e_int(sc)}")
                sc.ints.append(v)
            elif kind == 1:
                v = self.fresh("vs")
                s = self.tag(f"set {v} = {self.e_str(sc)}")
                sc.strs.append(v)
            else:
                a, b = self.fresh("vi"), self.fresh("vs")
                s = self.tag(f"set {a}, {b} = {self.e_int(sc)}, {self.e_str(sc)}")
                sc.ints.append(a)
                sc.strs.append(b)
                P.feat("set_tuple")
            return s
        if k == 5:
            P.feat("with")
            v = self.fresh("wi")
            s = self.tag(f"with {v} = {self.e_int(sc)}")
            inner = Scope(sc)
            inner.ints.append(v)
            return s + self.body(inner, depth + 1) + self.tag("endwith")
        if k == 6:
            P.feat("filter_block")
            return self.tag(f"filter {self.pick(['upper', 'lower', 'trim', 'e', 'replace(' + chr(39) + 'a' + chr(39) + ', ' + chr(39) + 'b' + chr(39) + ')'])}") + self.body(Scope(sc), depth + 1) + self.tag("endfilter")
        if k == 7:
            return self.macro_def(sc, depth) + self.macro_call(sc)
        if k == 8:
            return self.macro_call(sc)
        if k == 9:
            P.feat("include")
            ctx = self.pick(["", "", "", " with context", " without context"])
            name = "'inc'"
            if self.chance(1, 6):
                name = self.pick(["['nope', 'inc']", "'nope'"])
                ctx = " ignore missing" + ctx
                P.feat("include_missing")
            if "without" in ctx:
                P.feat("include_without_context")
            if getattr(self, "inc_uses_lv", False) and self.chance(1, 2):
                P.feat("include_in_lv_loop")
                return self.tag(f"for lv in {self.e_list(sc, 1, 'int')}") + self.tag(f"include {name}{ctx}") + self.tag("endfor")
            return self.tag(f"include {name}{ctx}")
        if k == 10:
            name, kind, nargs = self.pick(self.mod_exports)
            P.feat("use_import")
            if kind == "macro":
                args = ", ".join(self.e_int(sc, 1) for _ in range(self._nargs(nargs)))
                return self.var(f"{name}({args})")
            if kind == "nsvar":
                tmp = self.fresh("tn")
                return self.tag(f"set {tmp} = {name}") + self.tag(f"set {tmp}.x = {tmp}.x + 1") + self.var(f"{tmp}.x")
            if kind == "cycler":
                return self.var(f"{name}.next()")
            if kind == "joiner":
                return self.var(f"{name}()")
            return self.var(name)
        if k == 11:
            return self.comment("c " + self.pick(["x", "{{ y }}", "%"]))
        if k == 12:
            P.feat("namespace")
            ns = self.fresh("ns")
            s = self.tag(f"set {ns} = namespace(x={self.e_int(sc, 1)}, y='')")
            inner = Scope(sc)
            inner.ns.append(ns)
            it = self.fresh("i")
            s += self.tag(f"for {it} in {self.e_list(sc, 1, 'int')}")
            s += self.tag(f"set {ns}.x = {ns}.x + {it}")
            if self.chance(1, 2):
                s += self.tag(f"set {ns}.y = {ns}.y ~ {it}")
            s += self.tag("endfor") + self.var(f"{ns}.x ~ {ns}.y")
            return s
        if k == 13:
            P.feat("self_block")
            return self.var(f"self.{self.pick(self._callable_blocks())}()")
        if k == 14:
            P.feat("block_set")
            v = self.fresh("vs")
            flt = self.pick(["", " | upper", " | trim"])
            s = self.tag(f"set {v}{flt}") + self.body(Scope(sc), depth + 1) + self.tag("endset")
            sc.strs.append(v)
            return s
        if k == 15:
            return self.tag("if caller") + self.var("caller()") + self.tag("endif")
        if k == 16:
            P.feat("loop_attr")
            return self.var(self.pick([
                "loop.index", "loop.index0", "loop.first", "loop.last", "loop.length", "loop.revindex",
                "loop.revindex0", "loop.cycle('a', 'b')", "loop.changed(loop.index0 // 2)", "loop.depth",
                "loop.previtem|default('-')", "loop.nextitem|default('-')", "loop", "loop|length", "loop|attr('last')", "loop|attr('revindex')",
            ]))
        if k == 17:
            P.feat("loopcontrol")
            return self.tag(f"if {self.e_bool(sc, 1)}") + self.tag(self.pick(["break", "continue"])) + self.tag("endif")
        if k == 18:
            return self.tag("raw") + self.pick(["{{ x }}", "{% y %}", "r"]) + self.tag("endraw")
        if k == 20:
            P.feat("autoescape_block")
            if self.cur_template == "mod":
                # the block changes the eval context of the module's long-lived context while it runs (KF-C37-1)
                P.tags.add("module_eval_ctx")
            return self.tag(f"autoescape {self.pick(['false', 'true'])}") + self.body(Scope(sc), depth + 1) + self.tag("endautoescape")
        if k == 26:
            P.feat("list_copy_mutated")
            v = self.fresh("lc")
            src_ = self.pick(["l1", "l2", "gd.k2", "l0"] if self.env_globals else ["l1", "l2", "l0"])
            return self.tag(f"set {v} = {src_}|list") + self.var(f"{v}.append({self.e_int(sc, 1)}) or {v}|length")
        if k == 27:
            P.feat("trans_block")
            v = self.fresh("tv")
            e = self.e_any(sc)
            if self.chance(1, 3):
                return (self.tag(f"trans {v}={e}, n={self.e_int(sc, 1)}") + "one thing " + self.var(v)
                        + self.tag("pluralize n") + self.var("n") + " things " + self.var(v) + self.tag("endtrans"))
            # (a line break and indentation inside the block: the `trimmed` policy / option would change the message)
            return self.tag(f"trans {v}={e}") + "some text\n  " + self.var(v) + " and more" + self.tag("endtrans")
        if k == 25:
            P.feat("debug_tag")
            return self.tag("debug")
        if k == 23:
            # a @pass_context global gets a context derived for THIS call (loop / block variables included) and reads
            # the variable back after suspending (async) - each call must see its own frame's value
            P.feat("pass_context_global_reads_local")
            # names from a tiny pool: another macro of the same module may read the very name as a free variable
            v = self.pick(["cva", "cvb"]) if self.chance(1, 2) else self.fresh("cv")
            s = self.tag(f"set {v} = {self.e_int(sc, 1)}")
            sc.ints.append(v)
            return s + self.var(f"gcx('{v}')") + self.var(v)
        if k == 24:
            P.feat("module_printed_or_included")
            kk = self.d(3)
            if kk == 0:
                return self.tag("include 'mod' without context")
            al = self.fresh("pm")
            if kk == 1:
                return self.tag(f"import 'mod' as {al}") + self.var(al)
            return self.tag(f"import 'mod' as {al}") + self.var(f"{al}|string|length") + self.tag("include 'mod' without context")
        if k == 21:
            P.feat("namespace_from_data_dict")
            ns = self.fresh("ns")
            src_ = self.pick(["d1", "d1", "ld[0]", "gd" if self.env_globals else "d1"])
            key = {"d1": "k1", "ld[0]": "k", "gd": "k1"}[src_]
            s = self.tag(f"set {ns} = namespace({src_})")
            s += self.tag(f"set {ns}.{key} = {ns}.{key}|default(0) + 1") + self.tag(f"set {ns}.extra = {self.e_int(sc, 1)}")
            return s + self.var(f"{ns}.{key} ~ '/' ~ {ns}.extra")
        if k == 22:
            P.feat("native_container_mutation")
            v = self.fresh("nc")
            if self.chance(1, 2):
                return (self.tag(f"set {v}") + "[1, 2]" + self.tag("endset")
                        + self.var(f"({v}.append(3) or {v}) if {v} is not string else {v}"))
            return (self.tag(f"set {v}") + "{'a': 1}" + self.tag("endset")
                    + self.var(f"({v}.update(b=2) or {v}|dictsort|string) if {v} is mapping else {v}"))
        if k == 19:
            P.feat("call_block")
            name, nargs, _c = self.pick([m for m in sc.macros if m[2]])
            args = ", ".join(self.e_int(sc, 1) for _ in range(self._nargs(nargs)))
            inner = Scope(sc)
            return self.tag(f"call {name}({args})") + self.body(inner, depth + 1) + self.tag("endcall")
        return self.text()

    def _callable_blocks(self) -> list[str]:
        # a block may only call lower-numbered blocks (no recursion through self.b())
        if self.cur_block is None:
            return self.blocks
        return self.blocks[: self.cur_block]

    def for_stmt(self, sc: Scope, depth: int) -> str:
        P = self.prog
        P.feat("for")
        inner = Scope(sc)
        inner.in_loop = True
        kind = 0 if sc.closed else self.d(6 if not self.is_async else 8)
        if not sc.closed and not self.probe and self.chance(1, 10):
            kind = 8
        v = self.fresh("x")
        cond_var = v
        if kind in (0, 1):
            it = self.e_list(sc, 1, "int")
            inner.ints.append(v)
        elif kind == 2:
            it = self.e_list(sc, 1, "str")
            inner.strs.append(v)
        elif kind == 3:
            it = "ld"
            g = self.fresh("g")
            # iterate dict elements, expose fields through set
            head = self.tag(f"for {v} in ld{self._loop_filter(sc, v + '.k')}")
            kk, gg = self.fresh("vi"), self.fresh("vs")
            inner.ints.append(kk)
            inner.strs.append(gg)
            s = head + self.tag(f"set {kk} = {v}.k") + self.tag(f"set {gg} = {v}.g")
            s += self.body(inner, depth + 1)
            if self.chance(1, 4):
                s += self.tag("else") + self.body(Scope(sc), depth + 1)
            return s + self.tag("endfor")
        elif kind == 4:
            k2, v2 = self.fresh("k"), self.fresh("x")
            inner.strs.append(k2)
            inner.ints.append(v2)
            P.feat("for_unpack")
            s = self.tag(f"for {k2}, {v2} in d1|dictsort{self._loop_filter(sc, v2)}")
            s += self.body(inner, depth + 1)
            return s + self.tag("endfor")
        elif kind == 5:
            # recursive loop over a small tree
            P.feat("for_recursive")
            s = self.tag(f"for {v} in tree recursive")
            kk = self.fresh("vi")
            inner.ints.append(kk)
            s += self.tag(f"set {kk} = {v}.v") + self.body(inner, depth + 1, 1)
            s += self.tag(f"if {v}.c") + "(" + self.var(f"loop({v}.c)") + ")" + self.tag("endif")
            return s + self.tag("endfor")
        elif kind == 8:
            # a fresh generator OBJECT per evaluation (a plain iterator, not a sequence; closable)
            it = "sg1()"
            inner.ints.append(v)
            P.feat("for_sync_generator_object")
        elif kind == 6:
            it = "ai1"
            inner.ints.append(v)
            P.feat("for_async_iter")
        else:
            it = "ag1()"
            inner.ints.append(v)
            P.feat("for_async_gen")
        flt = self._loop_filter(sc, cond_var if v in inner.ints else None)
        s = self.tag(f"for {v} in {it}{flt}") + self.body(inner, depth + 1)
        if self.chance(1, 4):
            P.feat("for_else")
            s += self.tag("else") + self.body(Scope(sc), depth + 1)
        return s + self.tag("endfor")

    def _loop_filter(self, sc: Scope, int_expr: str | None) -> str:
        if not self.chance(1, 3):
            return ""
        self.prog.feat("loop_filter")
        if int_expr is None:
            return f" if {self.e_bool(sc, 2)}"
        k = self.d(4)
        if k == 0:
            return f" if {int_expr} is odd"
        if k == 1:
            return f" if {int_expr} > {self.e_int(sc, 2)}"
        if k == 2 and (self.is_async or self.probe):
            return f" if {'af1' if self.is_async else 'f1'}({int_expr}) != 2"
        return f" if {int_expr} != 2"

    def macro_def(self, sc: Scope, depth: int, name: str | None = None) -> str:
        P = self.prog
        P.feat("macro")
        name = name or self.fresh("m")
        nargs = self.d(3)
        inner = Scope()
        inner.closed = sc.closed
        # macros see the template-level scope names only through closure; keep it simple:
        inner.macros = list(sc.macros)
        params = []
        for i in range(nargs):
            p = self.fresh("p")
            inner.ints.append(p)
            params.append(p if i == 0 else f"{p}={self.d(4)}")
        special = self.d(6)
        if special == 1:
            inner.callers = True
            P.feat("macro_caller")
        saved_block, self.cur_block = self.cur_block, 0  # no self.block() inside macros (recursion)
        body = self.body(inner, depth + 1)
        self.cur_block = saved_block
        if special == 2:
            body += self.var("varargs|length")
            P.feat("macro_varargs")
        if special == 3:
            body += self.var("kwargs|length")
            P.feat("macro_kwargs")
        sc.macros.append((name, nargs, special == 1))
        return self.tag(f"macro {name}({', '.join(params)})") + body + self.tag("endmacro")

    def macro_call(self, sc: Scope) -> str:
        name, nargs, _c = self.pick(sc.macros)
        args = ", ".join(self.e_int(sc, 1) for _ in range(self._nargs(nargs)))
        return self.var(f"{name}({args})")

    def _nargs(self, nargs: int) -> int:
        return 0 if nargs == 0 else 1 + self.d(nargs)

    # -- templates -------------------------------------------------------------
    def gen_mod(self) -> str:
        self.cur_template = "mod"
        sc = Scope()
        sc.closed = True
        parts = []
        for _ in range(1 + self.d(2)):
            name = self.fresh("mm")
            parts.append(self.macro_def(sc, 1, name))
            self.mod_exports.append((name, "macro", sc.macros[-1][1]))
        if self.env_globals and self.chance(1, self.pair_den):
            # two macros of one module that share the module's long-lived context: one changes the eval context for
            # the duration of a block in which data is called, the other one's output depends on that eval context
            self.prog.feat("module_macro_pair_eval_context")
            self.prog.tags.add("module_eval_ctx")
            a_, b_ = self.fresh("mm"), self.fresh("mm")
            call = self.pick(["gf(q)", "gso", "gcx('q')", "gf(q) ~ gso"])
            parts.append(self.tag(f"macro {a_}(q)") + self.tag(f"autoescape {self.pick(['true', 'false'])}")
                         + self.var(call) + self.var("['<i>'|safe, 'a&b']|join") + self.tag("endautoescape") + self.tag("endmacro"))
            parts.append(self.tag(f"macro {b_}(q)") + self.var("['<i>'|safe, 'a&b', q]|join") + self.tag("endmacro"))
            self.mod_exports.append((a_, "macro", 1))
            self.mod_exports.append((b_, "macro", 1))
            self.pair = (a_, b_)
        elif self.env_globals and self.chance(1, 4):
            # a plain macro that emits markup around a data call: whether its result is wrapped as safe is decided
            # per CALL from the caller's eval context, and callers with different escaping share the Macro object
            self.prog.feat("module_macro_called_under_both_escaping_modes")
            c_ = self.fresh("mm")
            parts.append(self.tag(f"macro {c_}(q)") + "<b>" + self.var("gf(q)") + "&</b>" + self.tag("endmacro"))
            self.mod_exports.append((c_, "macro", 1))
            self.both = c_
        if self.chance(1, 2):
            v = self.fresh("mv")
            parts.append(self.tag(f"set {v} = {self.e_int(sc, 1)}"))
            self.mod_exports.append((v, "var", 0))
        if self.chance(1, 3):
            a, b = self.fresh("mv"), self.fresh("mv")
            parts.append(self.tag(f"set {a}, {b} = {self.e_int(sc, 1)}, {self.e_str(sc, 1)}"))
            self.mod_exports.append((a, "var", 0))
            self.mod_exports.append((b, "var", 0))
        if self.allow_module_state and self.chance(1, 2):
            self.prog.tags.add("module_state")
            k = self.d(3)
            if k == 0:
                v = self.fresh("mns")
                parts.append(self.tag(f"set {v} = namespace(x=0)"))
                self.mod_exports.append((v, "nsvar", 0))
            elif k == 1:
                v = self.fresh("mcy")
                parts.append(self.tag(f"set {v} = cycler('p', 'q', 'r')"))
                self.mod_exports.append((v, "cycler", 0))
            else:
                v = self.fresh("mjo")
                parts.append(self.tag(f"set {v} = joiner('|')"))
                self.mod_exports.append((v, "joiner", 0))
        if self.chance(1, 2):
            # top-level output of the module body (kept in the cached module's body stream)
            self.prog.feat("module_top_level_output")
            parts.append(self.var(self.c_str(sc, 1)))
        parts.append(self.text())
        return "".join(parts)

    def import_stmt(self) -> str:
        """Import statement(s) for the module; rewrites mod_exports to the names visible in the importer."""
        P = self.prog
        ctx = self.pick(["", "", " with context", " without context"])
        stateful = any(kind in ("nsvar", "cycler", "joiner") for _, kind, _ in self.mod_exports)
        if stateful and "with context" in ctx:
            ctx = ""
        if "with context" in ctx:
            P.feat("import_with_context")
        if self.chance(1, 2):
            P.feat("import_as")
            out = self.tag(f"import 'mod' as m{ctx}")
            self.mod_exports = [(f"m.{n}", k, a) for n, k, a in self.mod_exports]
            return out
        P.feat("from_import")
        names = ", ".join(n for n, _, _ in self.mod_exports)
        return self.tag(f"from 'mod' import {names}{ctx}")

    def _pair_calls(self) -> str:
        """Calls of the directed module macros through the names the current importer sees."""
        names = {n.rsplit(".", 1)[-1]: n for n, k, _a in self.mod_exports if k == "macro"}
        out = ""
        if self.pair is not None:
            a_, b_ = names.get(self.pair[0]), names.get(self.pair[1])
            if a_ and b_:
                x, y = self.var(f"{a_}({self.d(4)})"), self.var(f"{b_}({self.d(4)})")
                out += (x + y) if self.chance(1, 2) else (y + x)
        c_ = names.get(self.both) if self.both else None
        if c_:
            # the same macro object called under both escaping modes by one template
            out += (self.var(f"{c_}({self.d(4)})") + self.tag(f"autoescape {self.pick(['true', 'false'])}")
                    + self.var(f"{c_}({self.d(4)})") + self.tag("endautoescape"))
        return out

    def gen_inc(self) -> str:
        self.cur_template = "inc"
        sc = Scope()
        s = "[" + self.body(sc, 2, 1 + self.d(2))
        if self.chance(1, 2):
            # resolves a loop variable of the including template (after an await in async mode)
            self.prog.feat("inc_uses_includer_loop_var")
            self.inc_uses_lv = True
            if self.is_async:
                s += self.var("af1(0)")
            s += self.var("lv|default('-')")
        return s + "]"

    def generate(self) -> Program:
        P = self.prog
        shape = self.d(8)
        use_mod = self.chance(1, 2) or self.allow_module_state
        use_inc = self.chance(1, 2)
        use_base = shape >= 4
        if use_mod:
            P.templates["mod"] = self.gen_mod()
            self.have_mod = True
        saved_exports = list(self.mod_exports)
        self.mod_exports_all = list(self.mod_exports)
        if use_inc:
            self.have_inc = True
            P.templates["inc"] = self.gen_inc()
        if use_base:
            P.feat("extends")
            self.cur_template = "base"
            nblocks = 1 + self.d(3)
            self.blocks = [f"b{i}" for i in range(nblocks)]
            sc = Scope()
            parts = []
            if use_mod and self.chance(1, 2):
                parts.append(self.import_stmt())
                parts.append(self._pair_calls())
            else:
                self.mod_exports = []
            parts.append(self.body(sc, 1, 1))
            for bi, b in enumerate(self.blocks):
                self.cur_block = bi
                mods = self.pick(["", "", " scoped"])
                inner = Scope(sc) if mods else Scope()
                inner.macros = list(sc.macros)
                if self.chance(1, 3):
                    # scoped block inside a loop
                    P.feat("block_in_loop")
                    v = self.fresh("x")
                    lsc = Scope(sc)
                    lsc.in_loop = True
                    lsc.ints.append(v)
                    parts.append(self.tag(f"for {v} in l1") + self.tag(f"block {b} scoped") + self.body(lsc, 2)
                                 + self.tag(f"endblock {b}") + self.tag("endfor"))
                else:
                    parts.append(self.tag(f"block {b}{mods}") + self.body(inner, 2) + self.tag("endblock"))
                self.cur_block = None
                parts.append(self.text())
            P.templates["base"] = "".join(parts)
            # child
            self.cur_template = "main"
            self.mod_exports = list(saved_exports)
            sc = Scope()
            ext = self.d(6)
            if ext == 4:
                # parent chosen by data: the same child renders with different parents
                P.feat("extends_dynamic")
                vs = self.sx.vs
                P.templates["base2"] = "B2(" + P.templates["base"].replace(f"{vs} ", f"{vs} 7 ~ ") + ")"
                parts = [self.tag("extends pv")]
            elif ext == 5:
                P.feat("extends_conditional")
                parts = [self.tag("if n1 is defined") + self.tag("extends 'base'") + self.tag("endif")]
            else:
                parts = [self.tag("extends 'base'")]
            if use_mod:
                parts.append(self.import_stmt())
            if self.chance(1, 2):
                parts.append(self.macro_def(sc, 1))
            for bi, b in enumerate(self.blocks):
                if self.chance(2, 3):
                    self.cur_block = bi
                    inner = Scope()
                    inner.macros = list(sc.macros)
                    bd = self.body(inner, 2)
                    if self.chance(1, 2):
                        P.feat("super")
                        bd += self.var("super()")
                    parts.append(self.tag(f"block {b}") + bd + self.tag("endblock"))
                    self.cur_block = None
            P.templates["main"] = "".join(parts)
            P.entry_points = ["main", "base"]
        else:
            self.cur_template = "main"
            sc = Scope()
            parts = []
            if use_mod:
                parts.append(self.import_stmt())
                parts.append(self._pair_calls())
            if self.chance(1, 3):
                self.blocks = ["b0"]
                P.feat("block_standalone")
                self.cur_block = 0
                parts.append(self.tag("block b0") + self.body(Scope(), 2) + self.tag("endblock"))
                self.cur_block = None
            parts.append(self.body(sc, 0, 1 + self.d(self.size)))
            P.templates["main"] = "".join(parts)
            P.entry_points = ["main"]
        if use_inc:
            P.entry_points.append("inc")
        if not self.probe and self.chance(1, 5):
            # one feature used two ways in two templates of the set (optional arguments given / not given, a plain
            # generator and a generator-based coroutine passing through the same helper ...): code that remembers
            # something from one use (policy dicts, per-type memo tables, defaults) shows up as a later render of
            # the OTHER template that differs from its isolated render
            P.feat("paired_feature_uses")
            pairs = [
                ("ld|tojson", "d1|tojson(indent=2)"),
                ("l1|join", "l1|join('-')"),
                ("s1|truncate(3)", "s1|truncate(3, true, '!', 0)"),
                ("s1|urlize", "s1|urlize(rel='x', target='_top')"),
                ("l1|sum", "lw|sum(start=l0)|length"),
                ("s1|indent", "s1|indent(3, true)"),
                ("l1|batch(2)|list|length", "l1|unique|list|length"),
                ("ld|tojson", "o1|tojson(indent=2)"),
            ]
            if self.is_async:
                pairs += [("l1|batch(2)|list|length", "gc1(2)"), ("l1|unique|list|length", "gc1(n1)"),
                          ("af1(1)", "gc1(1)"), ("ai1|list|length", "ag1()|list|length")]
            plain, arg = self.pick(pairs)
            other = [n for n in P.entry_points if n != "main"]
            if other:
                P.templates["main"] += self.var(arg)
                P.templates[other[0]] += self.var(plain)
            else:
                P.templates["main"] += self.var(plain) + self.var(arg)
        if self.i18n and P.features.get("include_without_context") and "trans " in P.templates.get("inc", ""):
            # `include ... without context` emits the CACHED default module's body: a translation inside it was made once,
            # under whatever catalog / locale the first render had (the cached-module finding KF-C29-1, not interference
            # between the renders as such)
            P.tags.add("module_i18n")
        return P


# ---------------------------------------------------------------------------
# micro programs: one filter / test / global used two ways by two tiny templates
# ---------------------------------------------------------------------------
MICRO_PAIRS = [
    ("('alpha beta gamma delta ' ~ s1)|wordwrap(7)", "('alpha beta gamma-delta epsilon ' ~ s2)|wordwrap(12, false, '|', false)"),
    ("('alpha beta gamma ' ~ s1)|truncate(9)", "('alpha beta gamma ' ~ s2)|truncate(14, true, '!', 0)"),
    ("(s1 ~ '\nb\nc')|indent(2)", "(s2 ~ '\nb\n\nc')|indent(4, true, true)"),
    ("s1|center(9)", "s2|center(15)"),
    ("d1|tojson", "ld|tojson(indent=2)"),
    ("('see http://example.org/x ' ~ s1)|urlize", "('see www.example.org ' ~ s2)|urlize(8, true, target='_top', rel='me')"),
    ("s1|replace('a', 'b')", "s2|replace('b', 'c', 1)"),
    ("(n1 / 3)|round(1)", "(n2 / 7)|round(2, 'floor')"),
    ("l1|join(',')", "l2|join('|')"),
    ("l1|batch(2)|list|string", "l2|batch(3, 'x')|list|string"),
    ("l1|slice(2)|list|string", "l2|slice(3, '-')|list|string"),
    ("l1|sort|join", "l2|sort(reverse=true, case_sensitive=true)|join"),
    ("d1|dictsort|list|string", "d1|dictsort(false, 'value', true)|list|string"),
    ("(n1 * 1000)|filesizeformat", "(n2 * 1000000)|filesizeformat(true)"),
    ("'%s-%s'|format(n1, s1)", "'%(a)s/%(b)s'|format(a=s2, b=n2)"),
    ("u1|default('x')", "s1|default('y', true)"),
    ("s1|int", "'ff'|int(0, 16)"),
    ("ld|groupby('g')|map('first')|join", "ld|groupby('k', default=0)|map('last')|map('length')|join(',')"),
    ("l2|unique|join", "ld|unique(attribute='g')|map(attribute='g')|join"),
    ("l2|map('upper')|join", "ld|map(attribute='g')|map('lower')|join"),
    ("l1|select('odd')|join", "l1|reject('gt', 1)|join"),
    ("l1|sum", "lw|sum(start=l0)|length"),
    ("d1|xmlattr", "{'class': s1, 'id': n1}|xmlattr(false)"),
    ("s1|title", "s2|capitalize"),
    ("s1|trim", "s2|trim('a ')"),
    ("('<b>' ~ s1 ~ '</b>')|striptags", "s2|wordcount"),
    ("s1|urlencode", "d1|urlencode"),
    # (values computed from data so that nothing is folded at compile time: equal-but-different values 1 / True / 1.0)
    ("{'page': n1 * 0 + 1, 'off': n1 * 0, 'f': n1 * 0 + 2.0}|urlencode", "{'exact': n1 == n1, 'on': n1 != n1, 'n': n1 * 0 + 2}|urlencode"),
    ("[n1 * 0 + 1, n1 * 0]|map('string')|join", "[n1 == n1, n1 != n1, n1 * 0 + 1.0]|map('string')|join(',')"),
    ("d1|pprint", "l1|pprint"),
    ("o1|attr('a')", "o1|attr('b')"),
    ("ld|min(attribute='k')|string", "ld|max(attribute='k')|string"),
    ("l1|first", "l2|last"),
    ("l1|length", "s1|length"),
    ("s1|list|join('-')", "l1|reverse|list|string"),
    ("s1|e", "s2|forceescape"),
    ("n1 is divisibleby 2", "n2 is divisibleby 3"),
    ("s1 is in l2", "n1 is in l1"),
    ("range(n1 % 4)|list|string", "range(1, n2 % 5 + 2, 2)|list|string"),
    ("cycler('a', 'b').next()", "joiner('|')() ~ '.'"),
    ("namespace(x=n1).x", "dict(a=s1)|tojson"),
    # (round 9) the sandbox intercepts str.format: method lookup and call are separated by the await of an argument
    ("'A{}:{}'.format(gf(1), s1)", "'B{}+{}'.format(s2, gf(2))"),
    # a filter that takes the eval context, applied THROUGH map, from templates with different escaping (by name)
    ("[[s2, 'R&D'], [s1]]|map('join', ', ')|join('/')", "[[s1, '<x>'|safe], ['&']]|map('join', '; ')|join"),
    # a failing use (an object is not serialisable: the render raises) next to a plain use of the same filter
    ("ld|tojson", "o1|tojson(indent=2)"),
]


# constant expressions the optimizer folds at COMPILE time: two compilations that use one filter two ways
CONST_PAIRS = [
    ("'alpha beta gamma delta epsilon zeta'|wordwrap(7)", "'alpha beta gamma-delta epsilon zeta eta'|wordwrap(13, false, '|', false)"),
    ("'alpha beta gamma delta'|truncate(9)", "'alpha beta gamma delta'|truncate(14, true, '!', 0)"),
    ("'a\nb\nc'|indent(2)", "'a\nb\n\nc'|indent(4, true, true)"),
    ("'x'|center(9)", "'yy'|center(15)"),
    ("{'b': 1, 'a': 2}|tojson", "{'b': {'y': 1, 'x': 2}}|tojson(indent=1)"),
    ("'docs: http://example.org/x'|urlize", "'see www.example.org now'|urlize(8, true, target='_top', rel='me friend')"),
    ("{'b': 1, 'a': 2}|dictsort|list|string", "{'b': 1, 'a': 2}|dictsort(false, 'value', true)|list|string"),
    ("{'b': 1, 'a': '<'}|xmlattr", "{'class': 'c d', 'id': 1}|xmlattr(false)"),
    ("'%s-%s'|format('a', 'b')", "'%(a)s/%(b)s'|format(a='x', b=2)"),
    ("'a,b,a'|replace(',', ';')", "'a,b,a'|replace('a', 'z', 1)"),
    ("(10 / 3)|round(1)", "(22 / 7)|round(2, 'floor')"),
    ("[1, 2, 3]|batch(2)|list|string", "['a', 'b', 'c', 'd']|batch(3, 'x')|list|string"),
    ("['b', 'a', 'b']|unique|join(',')", "['B', 'b', 'a']|unique(case_sensitive=true)|join"),
    ("[3, 1, 2]|sort|join", "['b', 'A', 'c']|sort(reverse=true, case_sensitive=true)|join"),
    ("1000000|filesizeformat", "1000000|filesizeformat(true)"),
    ("'ab'|title", "'hello world'|capitalize"),
]


# module micro programs: (module source, template A, template B); A and B import the module WITHOUT context, so they
# run its macros through the one cached module object (and its one context)
MICRO_MODULES = [
    ("{% macro a(q) %}{% for i in [1, 2] %}{% set cva = i + q %}{{ gcx('cva') }}{% endfor %}{% endmacro %}"
     "{% macro b(q) %}[{{ cva|default('-') }}{{ q }}]{% endmacro %}",
     "{% from 'mod' import a, b %}{{ a(n1) }}", "{% from 'mod' import a, b %}{{ b(n2) }}{{ b(1) }}"),
    ("{% macro c(q) %}<b>{{ gf(q) }}&</b>{% endmacro %}",
     "{% from 'mod' import c %}{{ c(1) }}", "{% from 'mod' import c %}{% autoescape true %}{{ c(2) }}{% endautoescape %}"),
    ("{% macro w(t) %}<{{ t }}:{{ caller() }}>{% endmacro %}",
     "{% from 'mod' import w %}{% call w('x') %}{{ gf(1) }}{{ s1 }}{% endcall %}", "{% from 'mod' import w %}{% call w('y') %}{{ s2 }}{% endcall %}"),
    ("{% macro t(tr) %}{% for n in tr recursive %}{{ n.v }}{% if n.c %}({{ loop(n.c) }}){% endif %}{{ loop.depth }}{% endfor %}{% endmacro %}",
     "{% import 'mod' as m %}{{ m.t(tree) }}", "{% import 'mod' as m %}{{ m.t(tree) }}|{{ m.t([]) }}"),
    ("{% macro d(a, b=gf(1)) %}{{ a }}{{ b }}{{ varargs|length }}{{ kwargs|length }}{% endmacro %}{% set mv = gn %}top",
     "{% import 'mod' as m %}{{ m.d(1) }}{{ m.mv }}", "{% import 'mod' as m %}{{ m.d(2, 3, 4, k=5) }}{{ m }}"),
    ("{% macro f(xs) %}{% for x in xs if x is odd %}{{ loop.index }}{{ x }}{{ loop.cycle('a', 'b') }}{% else %}none{% endfor %}{% endmacro %}",
     "{% from 'mod' import f %}{{ f(l1) }}", "{% from 'mod' import f %}{{ f([2, 4]) }}{{ f([1, 3, 5]) }}"),
    ("{% macro j(xs) %}{{ xs|join('<br>'|safe) }}{% endmacro %}{% macro k(s) %}{% filter upper %}{{ s }}{% endfilter %}{% endmacro %}",
     "{% from 'mod' import j, k %}{{ j(l2) }}", "{% from 'mod' import j, k %}{{ k(s1) }}{{ j(['<x>']) }}"),
    ("x{{ gn }}y", "[{% include 'mod' without context %}]", "{% import 'mod' as m %}{{ m }}|{% include 'mod' without context %}"),
    # (tagged module_eval_ctx by micro_program: an autoescape block in a module macro is the known finding KF-C37-1; what
    # is still judged strictly: nobody's exception may be replaced and nobody may be left hanging)
    ("{% macro e(q) %}{% autoescape true %}{{ gf(q) }}<{{ q }}>{% endautoescape %}{% endmacro %}",
     "{% from 'mod' import e %}{{ e(1) }}", "{% from 'mod' import e %}{{ e(2) }}{{ e(3) }}"),
]


def micro_program(tape, stream: str = "w") -> Program:
    """Two one-expression templates that use the same filter / test / global in two different ways."""
    P = Program()
    if tape.draw(4, stream) == 3:
        mod, a_, b_ = MICRO_MODULES[tape.draw(len(MICRO_MODULES), stream)]
        if tape.draw(2, stream):
            a_, b_ = b_, a_
        P.templates = {"mod": mod, "main": a_, "m1": b_}
        if "{% autoescape" in mod:
            P.tags.add("module_eval_ctx")
        P.entry_points = ["main", "m1"]
        P.feat("micro")
        P.feat("micro_module")
        return P
    a, b = MICRO_PAIRS[tape.draw(len(MICRO_PAIRS), stream)]
    if tape.draw(2, stream):
        a, b = b, a
    P.templates = {"main": "{{ " + a + " }}", "m1": "{{ " + b + " }}"}
    if tape.draw(3, stream) == 0:
        P.templates["m1"] = P.templates["main"]  # the same use from both sides
    P.entry_points = ["main", "m1"]
    P.feat("micro")
    return P


# ---------------------------------------------------------------------------
# data
# ---------------------------------------------------------------------------
class Obj:
    """Plain data object with public attributes and items, stable str()."""

    def __init__(self, a, b, k) -> None:
        self.a = a
        self.b = b
        self._items = {"k": k}

    def __getitem__(self, key):
        return self._items[key]

    def __str__(self) -> str:
        return f"Obj({self.a},{self.b})"

    __repr__ = __str__


def f1(x):
    try:
        return int(x) + 1
    except Exception:
        return 0


def f2(x):
    return f"<{x}>"


def make_tree(rng) -> list:
    def node(depth):
        kids = [node(depth + 1) for _ in range(rng.randrange(3))] if depth < 2 else []
        return {"v": rng.randrange(5), "c": kids}
    return [node(0) for _ in range(1 + rng.randrange(2))]


def make_data(tape, stream: str = "d") -> dict:
    """Plain (sync) data.  All values are re-iterable; callables are pure."""
    return make_data_rng(tape.sub_rng(stream))


def make_data_seed(seed: int) -> dict:
    import random

    return make_data_rng(random.Random(seed))


class StrObj:
    """An object whose only interesting behaviour is its string conversion."""

    def __init__(self, text: str) -> None:
        self.text = text

    def __str__(self) -> str:
        return self.text

    def __repr__(self) -> str:
        return "EvStr()"


def make_data_rng(rng) -> dict:
    d = _make_data_rng(rng)
    l1 = d["l1"]

    def sg1():
        yield from l1

    d["sg1"] = sg1
    d["so1"] = StrObj(d["s2"] + "!")
    return d


def _make_data_rng(rng) -> dict:
    strs = ["a", "b", "<x>", "a&b", "é", "Hello World", "", "  pad "]
    n = 1 + rng.randrange(4)
    return {
        "n1": rng.randrange(6),
        "n2": rng.randrange(-2, 9),
        "s1": rng.choice(strs),
        "s2": rng.choice(strs),
        "l1": [rng.randrange(5) for _ in range(n)],
        "l2": [rng.choice(strs) for _ in range(1 + rng.randrange(3))],
        "ld": [{"k": rng.randrange(4), "g": rng.choice("xyz")} for _ in range(1 + rng.randrange(4))],
        "d1": {"k1": rng.randrange(5), "k2": rng.randrange(5), "zz": rng.randrange(3)},
        "l0": [rng.randrange(3) for _ in range(rng.randrange(3))],
        "lw": [[rng.randrange(4) for _ in range(rng.randrange(3))] for _ in range(1 + rng.randrange(3))],
        "o1": Obj(rng.randrange(3), rng.choice(strs), rng.randrange(5)),
        "lo": [Obj(rng.randrange(3), rng.choice(strs), rng.randrange(5)) for _ in range(1 + rng.randrange(3))],
        "tree": make_tree(rng),
        "pv": rng.choice(["base", "base2"]),
        "f1": f1,
        "f2": f2,
    }


def snapshot(obj, _seen=None):
    """Deep structural snapshot (identity-aware) of data for before/after comparison."""
    if _seen is None:
        _seen = {}
    oid = id(obj)
    if isinstance(obj, (int, float, str, bytes, bool, type(None))):
        return obj
    if oid in _seen:
        return ("ref", _seen[oid])
    _seen[oid] = len(_seen)
    if isinstance(obj, dict):
        return ("dict", [(snapshot(k, _seen), snapshot(v, _seen)) for k, v in obj.items()])
    if isinstance(obj, (list, tuple)):
        return (type(obj).__name__, [snapshot(v, _seen) for v in obj])
    if isinstance(obj, (set, frozenset)):
        return ("set", sorted(repr(snapshot(v, _seen)) for v in obj))
    if isinstance(obj, (types.FunctionType, types.BuiltinFunctionType, types.MethodType)):
        return ("callable", getattr(obj, "__qualname__", "?"))
    if isinstance(obj, type):
        return ("type", obj.__qualname__)
    d = getattr(obj, "__dict__", None)
    if d is not None:
        return ("obj", type(obj).__name__, [(k, snapshot(v, _seen)) for k, v in sorted(d.items()) if not k.startswith("_sim_")])
    return ("opaque", type(obj).__name__)
